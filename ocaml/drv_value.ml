(* driver for ValueModel (C17): one case per line -> one observable per line *)
open Zutil
open ValueModel

let kind_of_string = function
  | "i" -> I | "i8" -> I8 | "i16" -> I16 | "i32" -> I32 | "i64" -> I64
  | "u" -> U | "u8" -> U8 | "u16" -> U16 | "u32" -> U32 | "u64" -> U64
  | s -> failwith ("kind " ^ s)

let held_of_string s =
  match split_on ':' s with
  | ["nil"] -> HNil
  | ["int"; k; nm; z] -> HInt (kind_of_string k, nm = "1", z_of_string z)
  | ["f32"; nm; b] -> HF32 (nm = "1", z_of_string b)
  | ["f64"; nm; b] -> HF64 (nm = "1", z_of_string b)
  | ["str"; nm; h] -> HStr (nm = "1", bytes_of_hex h)
  | ["bytes"; nm; "nil"] -> HBytes (nm = "1", [])   (* typed nil slice: contents empty; nil-ness is not an observable *)
  | ["bytes"; nm; h] -> HBytes (nm = "1", bytes_of_hex h)
  | ["bool"; nm; b] -> HBool (nm = "1", b = "1")
  | ["sliceother"] -> HSliceOther
  | ["other"] -> HOther
  | _ -> failwith ("held " ^ s)

let ty_of_string = function
  | "f32" -> TF32 | "f64" -> TF64 | "str" -> TStr | "bytes" -> TBytes | "bool" -> TBool
  | k -> TInt (kind_of_string k)
let aty_of_string = function
  | "f32" -> AsF32 | "f64" -> AsF64 | "str" -> AsStr | "bytes" -> AsBytes
  | k -> AsI (kind_of_string k)

let res_of_strings = function
  | ["int"; z] -> RInt (z_of_string z)
  | ["f32"; b] -> RF32 (z_of_string b)
  | ["f64"; b] -> RF64 (z_of_string b)
  | ["str"; h] -> RStr (bytes_of_hex h)
  | ["bytes"; h] -> RBytes (bytes_of_hex h)
  | ["bool"; b] -> RBool (b = "1")
  | _ -> failwith "res"

let acc_of_string s =
  match split_on ':' s with
  | ["exact"; t] -> AExact (ty_of_string t)
  | ["as"; t] -> AAs (aty_of_string t)
  | "ordef" :: t :: r -> AOrDef (ty_of_string t, res_of_strings r)
  | ["jsonscan"] -> AJsonScan
  | _ -> failwith ("acc " ^ s)

let show = function
  | Common.Ok (RInt z) -> "ok int " ^ z_to_string z
  | Common.Ok (RF32 b) -> "ok f32 " ^ z_to_string b
  | Common.Ok (RF64 b) -> "ok f64 " ^ z_to_string b
  | Common.Ok (RStr s) -> "ok str " ^ hex_of_bytes s
  | Common.Ok (RBytes s) -> "ok bytes " ^ hex_of_bytes s
  | Common.Ok (RBool b) -> "ok bool " ^ (if b then "1" else "0")
  | Common.Ok (RParseFloat _) -> "ok parsefloat"
  | Common.Ok (RFmtFloat _) -> "ok fmtfloat"
  | Common.Ok (RJsonScan _) -> "ok jsonscan"
  | Common.Err Common.EStored -> "err stored"
  | Common.Err _ -> "err other"
  | Common.Panic -> "panic"

let run pinned =
  iter_lines (fun line ->
    match words line with
    | [h; e; a] ->
      let av = { coq_val = held_of_string h; has_err = (e = "1") } in
      let f = if pinned then access_pinned else access_now in
      print_endline (show (f (acc_of_string a) av))
    | _ -> print_endline "badcase")

let () =
  Registry.register "value" (fun _ -> run false);
  Registry.register "value-pinned" (fun _ -> run true)
