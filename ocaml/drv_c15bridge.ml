(* driver `c15bridge` (C15, bridge between the interleaving models and guards_respected): prints the
   Coq-side program-counter -> statement tables proof/C15Bridge*.v are stated with, so that
   checks/part_c15bridge.py can compare them with the lock-step drivers' label_of_pc tables:
     <object> <pc name> <label function>|<statement text>|<occurrence>
     COVER <object> <GLock rows of the footprint table> <rows without a program counter>
   Part of the trusted driver (printing only). *)
let str (s : String0.string) : string =
  let b = Buffer.create 64 in
  let rec go (s : String0.string) =
    match s with
    | String0.EmptyString -> ()
    | String0.String (Ascii.Ascii (b0, b1, b2, b3, b4, b5, b6, b7), r) ->
      let bit x k = if x then 1 lsl k else 0 in
      Buffer.add_char b (Char.chr (bit b0 0 + bit b1 1 + bit b2 2 + bit b3 3 + bit b4 4 + bit b5 5 + bit b6 6 + bit b7 7));
      go r
  in
  go s; Buffer.contents b

let clean s = String.map (fun c -> if c = '\n' then ' ' else c) s

let run _ =
  List.iter (fun (obj, lines) ->
      List.iter (fun (((pcname, lfunc), stmt), occ) ->
          print_endline (str obj ^ " " ^ str pcname ^ " " ^ clean (str lfunc) ^ "|" ^ clean (str stmt) ^ "|"
                         ^ string_of_int (Zutil.int_of_nat occ)))
        lines)
    C15BridgeAll.c15_bridge_tables;
  List.iter (fun (obj, (total, unm)) ->
      print_endline ("COVER " ^ str obj ^ " " ^ string_of_int (Zutil.int_of_nat total) ^ " "
                     ^ string_of_int (Zutil.int_of_nat unm)))
    C15BridgeAll.c15_bridge_coverage

let () = Registry.register "c15bridge" run
