(* driver for RBPtrModel, the pointer-level transcription of internal/tree/red_black_tree.go (C01, C02).
   modelrun rbptr     replay: one history per line on stdin, same case format as `modelrun rb` / harness c01
                      (only container "rb" = tree.RBTree; other containers print "skip"), one line of records
                      per history:  ret;len;keys;vals;shape;sizefield;parentflag;calls
                      shape      = the algebraic reading (abs_tree) of the model's heap from the root pointer
                      parentflag = the model's own walk of the parent fields (bad_parent), as the hook's walker
                      calls      = the model's ghost counter of rb.compare invocations
                      ret        = "panic" / "fuel" when the model's call ends in RPanic / RFuel (then the state is
                                   kept and the remaining records are still printed)
                      a final "#ptr ..." line has the totals *)
open Zutil
open RBModel
open RBPtrModel

let zs z = string_of_int (int_of_z z)
let z0 = BinNums.Z0

let cmp_of_string = function
  | "asc" | "str" -> cmp_asc
  | "desc" -> cmp_desc
  | "half" -> cmp_half
  | s -> failwith ("comparator " ^ s)

let dump_tree (t : tree) : string =
  let b = Buffer.create 256 in
  let rec go = function
    | E -> Buffer.add_char b '.'
    | T (c, l, k, _, r) ->
      Buffer.add_char b '('; go l; Buffer.add_char b ' ';
      Buffer.add_string b (zs k);
      Buffer.add_string b (match c with Red -> " R " | Black -> " B ");
      go r; Buffer.add_char b ')' in
  go t; Buffer.contents b

let ints (l : BinNums.coq_Z list) : string =
  if l = [] then "-" else String.concat "," (List.map zs l)

let eclass_str = function
  | Common.EDuplicate -> "err:dup"
  | Common.EAbsent -> "err:absent"
  | _ -> "err:other"

let rb_out_str = function
  | RUnit -> "ok" | RVal v -> "val:" ^ zs v | RErr e -> eclass_str e | RAbsent -> "absent"
  | RKVs _ -> "kvs" | RSize _ -> "size"

let parse_op s = match String.split_on_char ',' s with
  | [o] -> (o, z0, z0)
  | [o; k] -> (o, z_of_string k, z0)
  | o :: k :: v :: _ -> (o, z_of_string k, z_of_string v)
  | [] -> ("", z0, z0)

let n_ops = ref 0 and n_panic = ref 0 and n_fuel = ref 0 and n_badparent = ref 0 and n_hist = ref 0

let replay_line (line : string) =
  match words line with
  | "rb" :: cmpn :: stride :: ops ->
    incr n_hist;
    let cmp = cmp_of_string cmpn in
    let stride = max 1 (int_of_string stride) in
    let n = List.length ops in
    let b = Buffer.create 4096 in
    let s = ref pinit in
    List.iteri (fun i o ->
        if i > 0 then Buffer.add_char b '|';
        incr n_ops;
        let observe = (i + 1) mod stride = 0 || i = n - 1 in
        let (op, k, v) = parse_op o in
        let rop = (match op with
            | "a" -> Some (OAdd (k, v)) | "d" -> Some (ODelete k) | "f" -> Some (OFind k)
            | "s" -> Some (OSet (k, v)) | _ -> None) in
        let ret, calls =
          (match rop with
           | None -> "badop", "0"
           | Some rop ->
             (match ptr_step cmp rop !s with
              | ROk (out, s') -> s := s'; rb_out_str out, string_of_int (int_of_nat s'.pcalls)
              | RPanic -> incr n_panic; "panic", "-"
              | RFuel -> incr n_fuel; "fuel", "-")) in
        let len = (match rbSize !s with ROk (z, _) -> zs z | _ -> "?") in
        let keys, vals =
          if not observe then "~", "~" else
            (match rbKeyValues !s with
             | ROk (kvs, _) -> ints (List.map fst kvs), ints (List.map snd kvs)
             | RPanic -> "panic", "panic"
             | RFuel -> "fuel", "fuel") in
        let pflag =
          if not observe then "~"
          else if bad_parent !s then (incr n_badparent; "1") else "0" in
        Buffer.add_string b
          (String.concat ";" [ret; len; keys; vals;
                              (if observe then dump_tree (abs_tree !s) else "~");
                              zs !s.psize; pflag; calls])) ops;
    print_endline (Buffer.contents b)
  | _ :: _ :: _ :: _ -> print_endline "skip"
  | _ -> print_endline "badcase"

let () =
  Registry.register "rbptr" (fun _ ->
      iter_lines replay_line;
      Printf.printf "#ptr histories=%d ops=%d panic=%d fuel=%d bad_parent_flags=%d\n"
        !n_hist !n_ops !n_panic !n_fuel !n_badparent)
