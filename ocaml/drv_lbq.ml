(* lock-step driver for LBQModel (C07, C09): ConcurrentLinkedBlockingQueue + the broadcast cond.
   Maps (operation, program counter) to the instrumenter's labels (= normalised source text of
   the statements of concurrent_linked_blocking_queue.go and of cond.signalCh / cond.broadcast
   in delay_queue.go), generates schedules biased towards the park / wake / cancel windows.

   The run-time's choice at a select with BOTH cases ready cannot be predicted: the generator
   never produces that situation (it does not CANCEL a call whose fetched channel is already
   closed and does not close the channel of a cancelled call that has not passed its select);
   the Coq model covers it (event QStepCtx) and the stress command exercises it. *)
open Zutil
open LBQModel

let q = "ConcurrentLinkedBlockingQueue."

let label_of (o : lbq_op) (p : lbq_pc) : string =
  let enq = (match o with OEnq _ -> true | _ -> false) in
  let f = q ^ (match o with OEnq _ -> "Enqueue" | ODeq -> "Dequeue" | OLen -> "Len" | OAsSlice -> "AsSlice") in
  match p with
  | PIf -> f ^ "|if ctx.Err() != nil|0"
  | PRetErr0 -> f ^ (if enq then "|return ctx.Err()|0" else "|return t, ctx.Err()|0")
  | PLock -> f ^ "|c.mutex.Lock()|0"
  | PFor -> f ^ (if enq then "|for c.maxSize > 0 && c.linkedlist.Len() == c.maxSize|0" else "|for c.linkedlist.Len() == 0|0")
  | PSig -> f ^ (if enq then "|signal := c.notFull.signalCh()|0" else "|signal := c.notEmpty.signalCh()|0")
  | SRes -> "cond.signalCh|res := c.signal|0"
  | SUnlock -> "cond.signalCh|c.l.Unlock()|0"
  | SRet -> "cond.signalCh|return res|0"
  | PSelect -> f ^ "|select|0"
  | PParked -> "<parked in select>"
  | PCaseCtx -> f ^ "|case <-ctx.Done():|0"
  | PRetErr1 -> f ^ (if enq then "|return ctx.Err()|1" else "|return t, ctx.Err()|1")
  | PCaseSig -> f ^ "|case <-signal:|0"
  | PLock1 -> f ^ "|c.mutex.Lock()|1"
  | PAct -> f ^ (if enq then "|err := c.linkedlist.Append(t)|0" else "|val, err := c.linkedlist.Delete(0)|0")
  | PBcast -> f ^ (if enq then "|c.notEmpty.broadcast()|0" else "|c.notFull.broadcast()|0")
  | BMake -> "cond.broadcast|signal := make(chan struct{})|0"
  | BOld -> "cond.broadcast|old := c.signal|0"
  | BSet -> "cond.broadcast|c.signal = signal|0"
  | BUnlock -> "cond.broadcast|c.l.Unlock()|0"
  | BClose -> "cond.broadcast|close(old)|0"
  | PRet -> f ^ (if enq then "|return err|0" else "|return val, err|0")
  | RRLock -> f ^ "|c.mutex.RLock()|0"
  | RDefer -> f ^ "|defer c.mutex.RUnlock()|0"
  | RBody -> f ^ "|res := c.linkedlist.AsSlice()|0"
  | RRet -> f ^ (match o with OLen -> "|return c.linkedlist.Len()|0" | _ -> "|return res|0")

let qpcs = [PIf; PRetErr0; PLock; PFor; PSig; SRes; SUnlock; SRet; PSelect; PCaseCtx; PRetErr1; PCaseSig; PLock1;
            PAct; PBcast; BMake; BOld; BSet; BUnlock; BClose; PRet]

let res_str = function
  | RNil -> "nil"
  | RVal v -> "val:" ^ z_to_string v
  | RDelErr -> "delerr"
  | RCtx -> "ctx"
  | RLen n -> "len:" ^ z_to_string n
  | RSlice l -> "slice:[" ^ String.concat "," (List.map z_to_string l) ^ "]"
  | RPanic -> "panic"

(* driver-side bookkeeping (coverage and drain only; never influences the model) *)
let focus = ref "c07"
let maxev = ref 1000000
let nthr = ref 4
let style = ref 0       (* schedule style: 0 uniform, 1 slow waiters (between unlock and select), 2 slow close(old), 3 consumers outnumber producers *)
let nevents = ref 0
let next_val = ref 1
let woken_tids : (int, unit) Hashtbl.t = Hashtbl.create 8

let threads (c : lbq_cfg) = List.map (fun (t, l) -> (int_of_nat t, l)) c.q_thr
let is_closed c (l : lbq_loc) = mem l.l_sig (closed c (wcond l.l_op))

(* the situation the Go run-time resolves by a coin: a cancelled call whose fetched channel is
   closed and which has not yet executed its select *)
let both_ready (c : lbq_cfg) =
  List.exists (fun (_, l) ->
      (match l.l_pc with SUnlock | SRet | PSelect -> true | _ -> false) && l.l_cancel && is_closed c l)
    (threads c)

module M = struct
  type cfg = lbq_cfg
  type ev = lbq_ev
  let name = "lbq"

  let gen_params rng =
    let m = (match Random.State.int rng 12 with
        | 0 -> 0 | 1 -> -1 | 2 | 3 | 4 | 5 -> 1 | 6 | 7 | 8 -> 2 | _ -> 3) in
    let n = 2 + Random.State.int rng 4 in
    let st = Random.State.int rng 4 in
    [string_of_int m; string_of_int n; string_of_int st]

  let init params =
    (match params with
     | _ :: n :: st :: _ -> nthr := int_of_string n; style := int_of_string st
     | _ :: n :: _ -> nthr := int_of_string n; style := 0
     | _ -> nthr := 4; style := 0);
    nevents := 0; next_val := 1; Hashtbl.reset woken_tids;
    lbq_init (z_of_string (List.hd params))

  let tid_of = function QCall (t, _) | QStep t | QStepCtx t | QCancel t -> int_of_nat t

  let obs_str (t, o) =
    match o with
    | OAt (op, p) -> (int_of_nat t, "at " ^ label_of op p)
    | ORet RPanic -> (int_of_nat t, "panic close of closed channel")
    | ORet r -> (int_of_nat t, "ret " ^ res_str r)

  let apply c e =
    match lbq_exec1 c e with
    | Some (c', obs) -> Some (c', List.map obs_str obs)
    | None -> None

  let shuffle rng (l : 'a list) : 'a list =
    let a = Array.of_list l in
    for i = Array.length a - 1 downto 1 do
      let j = Random.State.int rng (i + 1) in
      let x = a.(i) in a.(i) <- a.(j); a.(j) <- x
    done;
    Array.to_list a

  (* weighted random order: each (weight, ev) gets key = u^(1/w); sort descending *)
  let order rng (l : (int * ev) list) : ev list =
    let keyed = List.map (fun (w, e) ->
        let u = Random.State.float rng 1.0 in
        (u ** (1.0 /. float_of_int (max w 1)), e)) l in
    List.map snd (List.sort (fun (a, _) (b, _) -> compare b a) keyed)

  let candidates rng (c : cfg) =
    let thr = threads c in
    let parked = List.filter (fun (_, l) -> l.l_pc = PParked) thr in
    if !nevents >= !maxev - !nthr - 1 then
      (* drain: no goroutine may stay parked in a select when the schedule ends *)
      List.map (fun (t, _) -> QCancel (nat_of_int t)) parked
    else begin
      let c09 = (!focus = "c09") in
      let full = must_wait c (OEnq Z0) and empty = must_wait c ODeq in
      let idle = List.filter (fun t -> not (List.mem_assoc t thr)) (List.init !nthr (fun i -> i + 1)) in
      let calls = List.concat_map (fun t ->
          let n = nat_of_int t in
          let v = z_of_int !next_val in
          [ ((if c09 && full then 5 else if !style = 3 then 2 else 3), QCall (n, OEnq v));
            ((if c09 && empty then 5 else if !style = 3 then 6 else 3), QCall (n, ODeq));
            (1, QCall (n, OLen)); (1, QCall (n, OAsSlice)) ]) idle in
      let steps = List.concat_map (fun (t, l) ->
          let n = nat_of_int t in
          let w = (match l.l_pc with
              | PParked -> 0
              | BClose -> if !style = 2 then 1 else 6
              | SRet | PSelect -> if !style = 1 then 1 else if c09 then 10 else 6
              | SUnlock | SRes | PSig -> if c09 then 10 else 6
              | PAct | PBcast | BMake | BOld | BSet | BUnlock -> if !style = 1 then 12 else 6
              | _ -> 6) in
          if w = 0 then [] else [(w, QStep n)]) thr in
      let cancels = List.concat_map (fun (t, l) ->
          if l.l_cancel || not (is_qop l.l_op) then []
          else
            let w = (match l.l_pc with
                | PParked -> if c09 then 6 else 2
                | PFor | PSig | SRes | SUnlock | SRet | PSelect -> if c09 then 3 else 1
                | _ -> 1) in
            (* thin out: most calls should live long enough to park / be woken *)
            let keep = (match l.l_pc with
                | PParked -> Random.State.int rng (if c09 then 3 else 6) = 0
                | PFor | PSig | SRes | SUnlock | SRet | PSelect -> Random.State.int rng (if c09 then 4 else 8) = 0
                | _ -> Random.State.int rng 25 = 0) in
            if keep then [(w, QCancel (nat_of_int t))] else []) thr in
      let evs = order rng (calls @ steps @ cancels) in
      let evs = List.filter (fun e ->
          match lbq_exec1 c e with
          | Some (c', _) -> not (both_ready c')
          | None -> false) evs in
      (* nothing else to do: cancel the parked calls (a schedule never ends with a goroutine parked in a select) *)
      if evs = [] then List.map (fun (t, _) -> QCancel (nat_of_int t)) parked else evs
    end

  let op_str = function
    | OEnq v -> "enq " ^ z_to_string v
    | ODeq -> "deq"
    | OLen -> "len"
    | OAsSlice -> "slice"

  let line = function
    | QCall (t, o) -> Printf.sprintf "CALL %d %s" (int_of_nat t) (op_str o)
    | QStep t -> Printf.sprintf "STEP %d" (int_of_nat t)
    | QStepCtx t -> Printf.sprintf "STEP %d" (int_of_nat t)
    | QCancel t -> Printf.sprintf "CANCEL %d" (int_of_nat t)

  let parse s =
    let n t = nat_of_int (int_of_string t) in
    match words s with
    | ["CALL"; t; "enq"; v] -> QCall (n t, OEnq (z_of_string v))
    | ["CALL"; t; "deq"] -> QCall (n t, ODeq)
    | ["CALL"; t; "len"] -> QCall (n t, OLen)
    | ["CALL"; t; "slice"] -> QCall (n t, OAsSlice)
    | ["STEP"; t] -> QStep (n t)
    | ["CANCEL"; t] -> QCancel (n t)
    | _ -> failwith ("parse: " ^ s)

  let pcname = function
    | PIf -> "before-first-check" | PRetErr0 -> "at-early-return" | PLock -> "before-lock" | PFor -> "after-lock"
    | PSig -> "before-signalCh" | SRes -> "in-signalCh-locked" | SUnlock -> "in-signalCh-fetched"
    | SRet -> "after-signalCh-unlock" | PSelect -> "before-select" | PParked -> "while-parked"
    | PCaseCtx | PRetErr1 -> "in-ctx-case" | PCaseSig -> "after-wakeup" | PLock1 -> "before-relock"
    | PAct -> "before-linearisation" | PBcast | BMake | BOld | BSet | BUnlock -> "in-broadcast-locked"
    | BClose -> "before-close" | PRet -> "before-return" | _ -> "reader"

  let tags c e c' =
    incr nevents;
    (match e with QCall (_, OEnq _) -> incr next_val | _ -> ());
    let thr = threads c in
    let loc t = List.assoc_opt t thr in
    let t = tid_of e in
    let l0 = loc t in
    let kind (l : lbq_loc) = (match l.l_op with OEnq _ -> "enqueue" | ODeq -> "dequeue" | OLen -> "len" | OAsSlice -> "asslice") in
    let r = ref [] in
    let add s = r := s :: !r in
    (match e, l0 with
     | QCancel _, Some l ->
       add ("cancel-" ^ pcname l.l_pc);
       if l.l_pc = PParked then add "cancel-while-parked"
     | QStep _, Some l ->
       (match l.l_pc with
        | BClose ->
          let k = bcond l.l_op in
          let w = List.filter (fun (t', l') -> t' <> t && woken k l.l_old l') thr in
          let pending = List.filter (fun (t', (l' : lbq_loc)) ->
              t' <> t && (match l'.l_pc with SRet | PSelect -> true | _ -> false)
              && wcond l'.l_op = k && l'.l_sig = l.l_old) thr in
          if w <> [] then add "woken-by-broadcast";
          if List.length w >= 2 then add "two-waiters-one-generation";
          if w = [] && pending = [] then add "broadcast-without-waiter";
          if pending <> [] then add "close-before-waiter-selects";
          List.iter (fun (t', _) -> Hashtbl.replace woken_tids t' ()) w
        | PSelect ->
          (match List.assoc_opt t (threads c') with
           | Some l' when l'.l_pc = PParked -> add ("parks-" ^ kind l)
           | Some l' when l'.l_pc = PCaseSig -> add "select-finds-closed-channel"; Hashtbl.replace woken_tids t ()
           | Some l' when l'.l_pc = PCaseCtx -> add "select-finds-cancelled-context"
           | _ -> ())
        | PFor ->
          (match List.assoc_opt t (threads c') with
           | Some l' when l'.l_pc = PSig -> add (kind l ^ "-must-wait")
           | _ -> ())
        | PAct ->
          let waiting = List.exists (fun (t', (l' : lbq_loc)) ->
              t' <> t && wcond l'.l_op = bcond l.l_op
              && (match l'.l_pc with SRet | PSelect | PParked -> true | _ -> false)) thr in
          if waiting then add "enabling-event-while-a-call-waits";
          List.iter (fun (t', (l' : lbq_loc)) ->
              if t' <> t && wcond l'.l_op = bcond l.l_op then
                match l'.l_pc with
                | SRet -> add "enabling-event-waiter-after-unlock"
                | PSelect -> add "enabling-event-waiter-before-select"
                | PParked -> add "enabling-event-waiter-parked"
                | _ -> ()) thr;
          if BinInt.Z.leb c.q_max Z0 && (match l.l_op with OEnq _ -> true | _ -> false)
             && List.length c.q_items >= 3 then add "unbounded-grows"
        | PRetErr0 -> add "ctx-error-before-lock"
        | PRetErr1 -> add "ctx-error-from-select"
        | PLock1 ->
          (match List.assoc_opt t (threads c') with
           | Some l' when l'.l_pc = PSig -> add (kind l ^ "-must-wait"); add "woken-but-recheck-fails"
           | Some _ -> add "woken-and-proceeds"
           | None -> ())
        | PLock | RRLock -> ()
        | RRet | RBody ->
          if List.exists (fun (_, (l' : lbq_loc)) -> l'.l_pc = PParked) thr then add "read-while-a-call-is-parked"
        | _ -> ());
       if List.assoc_opt t (threads c') = None then Hashtbl.remove woken_tids t
     | _ -> ());
    let waiting_lock = List.exists (fun (_, (l : lbq_loc)) ->
        (match l.l_pc with PLock | PLock1 | RRLock -> true | _ -> false)) thr in
    if waiting_lock && c.q_wlock <> None then add "lock-wanted-while-held";
    if (match c.q_readers with Datatypes.O -> false | Datatypes.S Datatypes.O -> false | _ -> true) then add "two-readers";
    if List.length thr >= 3 then add "three-or-more-calls-in-flight";
    !r

  let labels =
    List.sort_uniq compare
      (List.concat_map (fun o -> List.map (label_of o) qpcs) [OEnq Z0; ODeq]
       @ List.map (label_of OLen) [RRLock; RDefer; RRet]
       @ List.map (label_of OAsSlice) [RRLock; RDefer; RBody; RRet])

  let funcs = [q ^ "Enqueue"; q ^ "Dequeue"; q ^ "Len"; q ^ "AsSlice"; "cond.signalCh"; "cond.broadcast"]

  let nontrivial = ["woken-by-broadcast"; "cancel-while-parked"; "woken-but-recheck-fails";
                    "two-waiters-one-generation"; "close-before-waiter-selects"; "select-finds-closed-channel"]

  let final_check c =
    (* the model's own theorems evaluated on the final configuration (a test, not the proof) *)
    if lbq_hist_ok c then None else Some "history not linearizable / capacity exceeded / run-time error in the model"
end

module L = Lockstep.Make (M)

(* lbq-lockstep run <seed> <nschedules> <maxevents> [focus] <report> *)
let main args =
  (match args with
   | "run" :: _ :: _ :: me :: rest ->
     (try maxev := int_of_string me with _ -> ());
     (match rest with f :: _ :: _ -> focus := f | _ -> ())
   | _ -> ());
  L.main args

let () = Registry.register "lbq-lockstep" main
