(* driver for RBModel / TreeMapModel / AbsMapModel (C01, C02).
   modelrun rb            replay: one history per line on stdin (format: see harness/c01/c01.go),
                          one line of records per history on stdout, then a final "#cov ..." line with the
                          fix-up case counters (classified with the model's own functions, see cov_* below)
   modelrun rb spec       the same histories on the ABSTRACT sorted map / set of AbsMapModel
                          (only the API observables; the white-box fields are printed as '~')
   modelrun rb bfs N      bounded-exhaustive case generator: breadth-first over every tree shape reachable
                          from empty with <= N keys (de-duplicated by shape+colours), and from each shape
                          every Add into every gap and every Delete of every node; prints one history per
                          (shape, op): the ops that rebuild the shape followed by the op; "#bfs ..." summary last *)
open Zutil
open RBModel
open TreeMapModel

let zs z = string_of_int (int_of_z z)
let z0 = BinNums.Z0
let lt0 z = (match z with BinNums.Zneg _ -> true | _ -> false)
let gt0 z = (match z with BinNums.Zpos _ -> true | _ -> false)

let cmp_of_string = function
  | "asc" | "str" -> cmp_asc      (* str: the harness maps ints to strings order-isomorphically *)
  | "desc" -> cmp_desc
  | "half" -> cmp_half
  | s -> failwith ("comparator " ^ s)

(* ---------- printing ---------- *)
let dump_tree (t : tree) : string =
  let b = Buffer.create 256 in
  let rec go = function
    | E -> Buffer.add_char b '.'
    | T (c, l, k, _, r) ->
      Buffer.add_char b '('; go l; Buffer.add_char b ' ';
      Buffer.add_string b (zs k);
      Buffer.add_string b (match c with Red -> " R " | Black -> " B ");
      go r; Buffer.add_char b ')' in
  go t; Buffer.contents b

let ints (l : BinNums.coq_Z list) : string =
  if l = [] then "-" else String.concat "," (List.map zs l)

let eclass_str = function
  | Common.EDuplicate -> "err:dup"
  | Common.EAbsent -> "err:absent"
  | _ -> "err:other"

let rb_out_str = function
  | RUnit -> "ok" | RVal v -> "val:" ^ zs v | RErr e -> eclass_str e | RAbsent -> "absent"
  | RKVs _ -> "kvs" | RSize _ -> "size"
let tm_out_str = function
  | TUnit -> "ok" | TErr e -> eclass_str e | TVal v -> "val:" ^ zs v | TAbsent -> "absent"
  | TKeysOut _ -> "keys" | TValsOut _ -> "vals" | TLenOut _ -> "len"
let ts_out_str = function
  | SUnit -> "ok" | SBool b -> if b then "true" else "false" | SKeysOut _ -> "keys"

(* ---------- coverage: which fix-up cases fire, decided with the model's own functions ----------
   For an Add the statuses returned by `ins` on the subtrees along the search path say where
   fix_add_left / fix_add_right ran and with which uncle / direction; for a Delete the deficit flags
   returned by `del` / `del_min` on the subtrees along the path say where fixL / fixR ran, and the
   sibling / nephew colours at that point select the sub-case exactly as fixL / fixL_black do. *)
let cov : (string, int) Hashtbl.t = Hashtbl.create 64
let bump name = Hashtbl.replace cov name (1 + (try Hashtbl.find cov name with Not_found -> 0))

let rec cov_add cmp k v (t : tree) (top : bool) : bool (* some fix-up ran *) =
  match t with
  | E -> if top then bump "add_into_empty"; false
  | T (_, l, k', _, r) ->
    let z = cmp k k' in
    if lt0 z then begin
      let below = cov_add cmp k v l false in
      match ins cmp k v l with
      | (_, Inf d) ->
        if isred r then bump "add_uncle_red_L"
        else bump (match d with R -> "add_left_black_inner_rotation" | L -> "add_left_black_no_inner_rotation");
        true
      | _ -> below
    end else if gt0 z then begin
      let below = cov_add cmp k v r false in
      match ins cmp k v r with
      | (_, Inf d) ->
        if isred l then bump "add_uncle_red_R"
        else bump (match d with L -> "add_right_black_inner_rotation" | R -> "add_right_black_no_inner_rotation");
        true
      | _ -> below
    end else (bump "add_duplicate"; true)

let cov_fix_black side (sib : tree) =
  (* fixL_black / fixR_black: x deficient on `side`, sib black *)
  let near, far = (match side, sib with
      | `L, T (_, sl, _, _, sr) -> sl, sr
      | `R, T (_, sl, _, _, sr) -> sr, sl
      | _, E -> E, E) in
  let s = (match side with `L -> "_L" | `R -> "_R") in
  if not (isred near) && not (isred far) then bump ("del_both_nephews_black" ^ s)
  else begin
    if not (isred far) then bump ("del_far_nephew_black_inner_rotation" ^ s);
    bump ("del_outer_rotation" ^ s)
  end

(* the child on `side` came back as `res`; the other child of this node is sib *)
let cov_up side (res : tree * bool) (sib : tree) (top : bool) =
  let (c', nf0) = res in
  if nf0 && isred c' then bump "del_deficit_absorbed_by_red_node";
  let (_, nf) = resolve res in
  if nf then begin
    let s = (match side with `L -> "_L" | `R -> "_R") in
    (match sib with
     | T (Red, sl, _, _, sr) ->
       bump ("del_red_sibling" ^ s);
       cov_fix_black side (match side with `L -> sl | `R -> sr)
     | _ -> cov_fix_black side sib);
    ignore top
  end

let cov_remove_here (c : color) (l : tree) (r : tree) (isroot : bool) =
  match l, r with
  | E, E ->
    if isroot then bump "del_root_becomes_nil"
    else (match c with Black -> bump "del_phantom_black_leaf" | Red -> bump "del_red_leaf")
  | _ ->
    if isroot then bump "del_root_replaced_by_child";
    bump "del_node_with_one_child"

let rec cov_delmin (t : tree) =
  match t with
  | E -> ()
  | T (c, E, _, _, r) -> cov_remove_here c E r false
  | T (_, l, _, _, r) ->
    cov_delmin l;
    let ((l', _), nf) = del_min l in
    cov_up `L (l', nf) r false

let rec cov_del cmp k (t : tree) (top : bool) =
  match t with
  | E -> bump "del_absent"
  | T (c, l, k', _, r) ->
    let z = cmp k k' in
    if lt0 z then begin
      cov_del cmp k l false;
      match del cmp k l with
      | Some ((l', _), nf) -> cov_up `L (l', nf) r top
      | None -> ()
    end else if gt0 z then begin
      cov_del cmp k r false;
      match del cmp k r with
      | Some ((r', _), nf) -> cov_up `R (r', nf) l top
      | None -> ()
    end else begin
      match l, r with
      | T _, T _ ->
        bump "del_two_children_successor_copy";
        cov_delmin r;
        let ((r', _), nf) = del_min r in
        cov_up `R (r', nf) l top
      | _ -> cov_remove_here c l r top
    end

let cov_delete cmp k t =
  cov_del cmp k t true;
  match del cmp k t with
  | Some ((t', _), true) when not (isred t') && t' <> E -> bump "del_deficit_reaches_root"
  | _ -> ()

(* ---------- replay ---------- *)
(* third field of a case: "<n>" = full state observed after every n-th op and the last one, or
   "m:<bits>" = sparse observation, one bit per op (then Size()/Len() too is only printed when observed) *)
let obs_plan (s : string) (n : int) : (int -> bool) * bool =
  if String.length s >= 2 && String.sub s 0 2 = "m:" then
    let m = String.sub s 2 (String.length s - 2) in
    ((fun i -> i < String.length m && m.[i] = '1'), true)
  else
    let stride = max 1 (int_of_string s) in
    ((fun i -> (i + 1) mod stride = 0 || i = n - 1), false)

let parse_op s = match String.split_on_char ',' s with
  | [o] -> (o, z0, z0)
  | [o; k] -> (o, z_of_string k, z0)
  | o :: k :: v :: _ -> (o, z_of_string k, z_of_string v)
  | [] -> ("", z0, z0)

let record b ret len keys vals shape size pflag calls =
  Buffer.add_string b ret; Buffer.add_char b ';';
  Buffer.add_string b len; Buffer.add_char b ';';
  Buffer.add_string b keys; Buffer.add_char b ';';
  Buffer.add_string b vals; Buffer.add_char b ';';
  Buffer.add_string b shape; Buffer.add_char b ';';
  Buffer.add_string b size; Buffer.add_char b ';';
  Buffer.add_string b pflag; Buffer.add_char b ';';
  Buffer.add_string b calls

let replay_line (line : string) =
  match words line with
  | cont :: cmpn :: stride :: ops ->
    let cmp = cmp_of_string cmpn in
    let n = List.length ops in
    let (observed, sparse) = obs_plan stride n in
    let b = Buffer.create 4096 in
    let s = ref rb_empty in
    List.iteri (fun i o ->
        if i > 0 then Buffer.add_char b '|';
        let observe = observed i in
        let (op, k, v) = parse_op o in
        let ret, calls, s' =
          (match cont, op with
           | "rb", ("a" | "d" | "f" | "s") ->
             let rop = (match op with "a" -> OAdd (k, v) | "d" -> ODelete k | "f" -> OFind k | _ -> OSet (k, v)) in
             (match op with "a" -> ignore (cov_add cmp k v !s.root true) | "d" -> cov_delete cmp k !s.root | _ -> ());
             let (s', out) = rb_step cmp !s rop in
             rb_out_str out, rb_op_calls cmp !s rop, s'
           | "tm", ("p" | "g" | "d") ->
             let top = (match op with "p" -> TPut (k, v) | "g" -> TGet k | _ -> TDelete k) in
             (match op with "p" -> ignore (cov_add cmp k v !s.root true) | "d" -> cov_delete cmp k !s.root | _ -> ());
             let (s', out) = tm_step cmp !s top in
             tm_out_str out, tm_op_calls cmp !s top, s'
           | "ts", ("a" | "d" | "e") ->
             let sop = (match op with "a" -> SAdd k | "d" -> SDelete k | _ -> SExist k) in
             (match op with "a" -> ignore (cov_add cmp k z0 !s.root true) | "d" -> cov_delete cmp k !s.root | _ -> ());
             let (s', out) = ts_step cmp !s sop in
             ts_out_str out, ts_op_calls cmp !s sop, s'
           | _ -> "badop", Datatypes.O, !s) in
        s := s';
        let len = if sparse && not observe then "~" else (match cont with
            | "rb" -> (match snd (rb_step cmp s' OSize) with RSize z -> zs z | _ -> "?")
            | "tm" -> (match snd (tm_step cmp s' TLen) with TLenOut z -> zs z | _ -> "?")
            | _ -> "-") in
        let keys, vals =
          if not observe then "~", "~" else
            (match cont with
             | "rb" -> (match snd (rb_step cmp s' OKeyValues) with
                 | RKVs kvs -> ints (List.map fst kvs), ints (List.map snd kvs) | _ -> "?", "?")
             | "tm" ->
               (match snd (tm_step cmp s' TKeys) with TKeysOut l -> ints l | _ -> "?"),
               (match snd (tm_step cmp s' TValues) with TValsOut l -> ints l | _ -> "?")
             | _ -> (match snd (ts_step cmp s' SKeys) with SKeysOut l -> ints l | _ -> "?"), "-") in
        record b ret len keys vals
          (if observe then dump_tree s'.root else "~") (zs s'.size) (if observe then "0" else "~")
          (string_of_int (int_of_nat calls))) ops;
    print_endline (Buffer.contents b)
  | _ -> print_endline "badcase"

let spec_line (line : string) =
  match words line with
  | cont :: cmpn :: stride :: ops ->
    let cmp = cmp_of_string cmpn in
    let n = List.length ops in
    let (observed, sparse) = obs_plan stride n in
    let b = Buffer.create 4096 in
    let m = ref ([] : AbsMapModel.amap) in
    let st = ref ([] : AbsMapModel.aset) in
    List.iteri (fun i o ->
        if i > 0 then Buffer.add_char b '|';
        let observe = observed i in
        let (op, k, v) = parse_op o in
        let ret =
          (match cont, op with
           | "rb", ("a" | "d" | "f" | "s") ->
             let rop = (match op with "a" -> OAdd (k, v) | "d" -> ODelete k | "f" -> OFind k | _ -> OSet (k, v)) in
             let (m', out) = AbsMapModel.abs_step cmp !m rop in m := m'; rb_out_str out
           | "tm", ("p" | "g" | "d") ->
             let top = (match op with "p" -> TPut (k, v) | "g" -> TGet k | _ -> TDelete k) in
             let (m', out) = AbsMapModel.abs_tm_step cmp !m top in m := m'; tm_out_str out
           | "ts", ("a" | "d" | "e") ->
             let sop = (match op with "a" -> SAdd k | "d" -> SDelete k | _ -> SExist k) in
             let (s', out) = AbsMapModel.abs_ts_step cmp !st sop in st := s'; ts_out_str out
           | _ -> "badop") in
        let len = if sparse && not observe then "~" else (match cont with
            | "rb" -> (match snd (AbsMapModel.abs_step cmp !m OSize) with RSize z -> zs z | _ -> "?")
            | "tm" -> (match snd (AbsMapModel.abs_tm_step cmp !m TLen) with TLenOut z -> zs z | _ -> "?")
            | _ -> "-") in
        let keys, vals =
          if not observe then "~", "~" else
            (match cont with
             | "rb" -> (match snd (AbsMapModel.abs_step cmp !m OKeyValues) with
                 | RKVs kvs -> ints (List.map fst kvs), ints (List.map snd kvs) | _ -> "?", "?")
             | "tm" ->
               (match snd (AbsMapModel.abs_tm_step cmp !m TKeys) with TKeysOut l -> ints l | _ -> "?"),
               (match snd (AbsMapModel.abs_tm_step cmp !m TValues) with TValsOut l -> ints l | _ -> "?")
             | _ -> (match snd (AbsMapModel.abs_ts_step cmp !st SKeys) with SKeysOut l -> ints l | _ -> "?"), "-") in
        record b ret len keys vals "~" "-" "~" "-") ops;
    print_endline (Buffer.contents b)
  | _ -> print_endline "badcase"

(* ---------- bounded-exhaustive generator ---------- *)
type rankop = A of int (* gap 0..n among the live keys *) | D of int (* live node 0..n-1 *)

let shape_only (t : tree) : string =
  let b = Buffer.create 64 in
  let rec go = function
    | E -> Buffer.add_char b '.'
    | T (c, l, _, _, r) ->
      Buffer.add_char b '('; go l; Buffer.add_char b (match c with Red -> 'R' | Black -> 'B'); go r; Buffer.add_char b ')' in
  go t; Buffer.contents b

let renorm (t : tree) : tree =    (* keys become 2,4,..,2n in order, values 0 *)
  let cnt = ref 0 in
  let rec go = function
    | E -> E
    | T (c, l, _, _, r) ->
      let l' = go l in incr cnt; let k = z_of_int (2 * !cnt) in let r' = go r in T (c, l', k, z0, r') in
  go t

(* turn a rank history into concrete integer keys: all keys ever inserted are kept in one ordered list
   (dead ones too); a new key goes immediately before the live key it must precede *)
let concretise (ops : rankop list) : string list =
  let all = ref ([] : (int * bool ref) list) in    (* (id, alive) in key order *)
  let next = ref 0 in
  let trace = List.map (fun o ->
      match o with
      | A gap ->
        let id = !next in incr next;
        let rec insert live = function
          | [] -> [(id, ref true)]
          | ((_, al) as x) :: rest ->
            if !al && live = gap then (id, ref true) :: x :: rest
            else x :: insert (if !al then live + 1 else live) rest in
        all := insert 0 !all; (`A, id)
      | D j ->
        let rec find live = function
          | [] -> failwith "concretise"
          | (id, al) :: rest -> if !al then (if live = j then (al := false; id) else find (live + 1) rest) else find live rest in
        (`D, find 0 !all)) ops in
  let key = Hashtbl.create 16 in
  List.iteri (fun i (id, _) -> Hashtbl.replace key id (i + 1)) !all;
  List.mapi (fun i (o, id) ->
      match o with
      | `A -> Printf.sprintf "a,%d,%d" (Hashtbl.find key id) (100 + i)
      | `D -> Printf.sprintf "d,%d" (Hashtbl.find key id)) trace

let bfs (bound : int) =
  let seen = Hashtbl.create 1024 in
  let q = Queue.create () in
  Hashtbl.replace seen (shape_only E) ();
  Queue.add (E, []) q;
  let shapes = ref 0 and probes = ref 0 and maxlen = ref 0 in
  let by_size = Array.make (bound + 2) 0 in
  let emit hist =
    incr probes; maxlen := max !maxlen (List.length hist);
    print_endline ("rb asc 1 " ^ String.concat " " (concretise hist)) in
  while not (Queue.is_empty q) do
    let (t, rhist) = Queue.pop q in
    let hist = List.rev rhist in
    let n = int_of_nat (card t) in
    incr shapes; by_size.(n) <- by_size.(n) + 1;
    for gap = 0 to n do
      emit (hist @ [A gap]);
      if n < bound then
        match add cmp_asc (z_of_int (2 * gap + 1)) z0 t with
        | Some t' ->
          let t'' = renorm t' in
          let key = shape_only t'' in
          if not (Hashtbl.mem seen key) then (Hashtbl.replace seen key (); Queue.add (t'', A gap :: rhist) q)
        | None -> failwith "bfs: add into a gap reported duplicate"
    done;
    for j = 0 to n - 1 do
      emit (hist @ [D j]);
      match delete cmp_asc (z_of_int (2 * (j + 1))) t with
      | Some (t', _) ->
        let t'' = renorm t' in
        let key = shape_only t'' in
        if not (Hashtbl.mem seen key) then (Hashtbl.replace seen key (); Queue.add (t'', D j :: rhist) q)
      | None -> failwith "bfs: delete of a stored key reported absent"
    done
  done;
  Printf.printf "#bfs bound=%d shapes=%d probes=%d longest_history=%d by_size=%s\n" bound !shapes !probes !maxlen
    (String.concat "," (Array.to_list (Array.mapi (fun i c -> Printf.sprintf "%d:%d" i c) by_size)))

let print_cov () =
  let l = Hashtbl.fold (fun k v acc -> (k, v) :: acc) cov [] in
  let l = List.sort compare l in
  print_endline ("#cov " ^ String.concat " " (List.map (fun (k, v) -> Printf.sprintf "%s=%d" k v) l))

let () =
  Registry.register "rb" (fun args ->
      match args with
      | ["spec"] -> iter_lines spec_line
      | ["bfs"; n] -> bfs (int_of_string n)
      | _ -> iter_lines replay_line; print_cov ())
