(* Conversions between OCaml ints/strings and the extracted Coq number types.
   Part of the trusted driver (printing/parsing only). *)
open BinNums

let rec pos_of_int n =
  if n <= 1 then Coq_xH
  else if n land 1 = 0 then Coq_xO (pos_of_int (n lsr 1))
  else Coq_xI (pos_of_int (n lsr 1))

let z_of_int n =
  if n = 0 then Z0 else if n > 0 then Zpos (pos_of_int n) else Zneg (pos_of_int (-n))

let ten = z_of_int 10

(* decimal string (optional leading '-') -> Z, arbitrary size *)
let z_of_string (s : string) : coq_Z =
  let neg = String.length s > 0 && s.[0] = '-' in
  let start = if neg then 1 else 0 in
  let acc = ref Z0 in
  for i = start to String.length s - 1 do
    let d = Char.code s.[i] - 48 in
    if d < 0 || d > 9 then failwith ("z_of_string: " ^ s);
    acc := BinInt.Z.add (BinInt.Z.mul !acc ten) (z_of_int d)
  done;
  if neg then BinInt.Z.opp !acc else !acc

let rec int_of_pos p =
  match p with
  | Coq_xH -> 1
  | Coq_xO q -> 2 * int_of_pos q
  | Coq_xI q -> 2 * int_of_pos q + 1

(* only for values known to fit in an OCaml int *)
let int_of_z z =
  match z with Z0 -> 0 | Zpos p -> int_of_pos p | Zneg p -> - (int_of_pos p)

let z_to_string (z : coq_Z) : string =
  match z with
  | Z0 -> "0"
  | _ ->
    let neg = (match z with Zneg _ -> true | _ -> false) in
    let a = ref (if neg then BinInt.Z.opp z else z) in
    let buf = Buffer.create 24 in
    let digits = ref [] in
    while !a <> Z0 do
      let (q, r) = BinInt.Z.div_eucl !a ten in
      digits := (Char.chr (48 + int_of_z r)) :: !digits;
      a := q
    done;
    if neg then Buffer.add_char buf '-';
    List.iter (Buffer.add_char buf) !digits;
    Buffer.contents buf

let rec nat_of_int n = if n <= 0 then Datatypes.O else Datatypes.S (nat_of_int (n - 1))
let rec int_of_nat n = match n with Datatypes.O -> 0 | Datatypes.S m -> 1 + int_of_nat m

(* hex string <-> list of byte values as Z *)
let bytes_of_hex (h : string) : coq_Z list =
  let n = String.length h / 2 in
  List.init n (fun i -> z_of_int (int_of_string ("0x" ^ String.sub h (2 * i) 2)))
let hex_of_bytes (l : coq_Z list) : string =
  String.concat "" (List.map (fun z -> Printf.sprintf "%02x" ((int_of_z z) land 255)) l)

let split_on c s = String.split_on_char c s
let words s = List.filter (fun w -> w <> "") (String.split_on_char ' ' s)

let iter_lines (f : string -> unit) =
  try while true do f (input_line stdin) done with End_of_file -> ()
