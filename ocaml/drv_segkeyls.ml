(* lock-step driver for SegKeyLSModel (C14, syncx.SegmentKeysLock under concurrency): maps the model's
   program counters to the instrumenter's labels (= normalised source text of the statements of
   segment_key_lock.go), generates schedules (3-5 goroutines, 1-8 segments, keys from a small pool with
   empty / non-ASCII / long keys and colliding pairs) and tags the windows the property names.
   Protocol: NEW segkeyls <size> <nthreads> <mode> <key>... (the Go side uses <size> only);
   CALL <tid> <lock|unlock|rlock|runlock|trylock|tryrlock> <hex key, "-" = empty>; STEP <tid>. *)
open BinNums
open Zutil
open SegKeyLSModel

let op_name = function
  | OLock -> "lock" | OUnlock -> "unlock" | ORLock -> "rlock" | ORUnlock -> "runlock"
  | OTryLock -> "trylock" | OTryRLock -> "tryrlock"
let op_of_name = function
  | "lock" -> OLock | "unlock" -> OUnlock | "rlock" -> ORLock | "runlock" -> ORUnlock
  | "trylock" -> OTryLock | "tryrlock" -> OTryRLock | s -> failwith ("op " ^ s)
let all_ops = [OLock; OUnlock; ORLock; ORUnlock; OTryLock; OTryRLock]

(* the ONE statement of each public method *)
let meth_label = function
  | OLock -> "SegmentKeysLock.Lock|s.getLock(key).Lock()|0"
  | OUnlock -> "SegmentKeysLock.Unlock|s.getLock(key).Unlock()|0"
  | ORLock -> "SegmentKeysLock.RLock|s.getLock(key).RLock()|0"
  | ORUnlock -> "SegmentKeysLock.RUnlock|s.getLock(key).RUnlock()|0"
  | OTryLock -> "SegmentKeysLock.TryLock|return s.getLock(key).TryLock()|0"
  | OTryRLock -> "SegmentKeysLock.TryRLock|return s.getLock(key).TryRLock()|0"

let label_of o = function
  | PMeth -> meth_label o
  | PGet1 -> "SegmentKeysLock.getLock|hash := s.hash(key)|0"
  | PH1 -> "SegmentKeysLock.hash|h := fnv.New32a()|0"
  | PH2 -> "SegmentKeysLock.hash|_, _ = h.Write([]byte(key))|0"
  | PH3 -> "SegmentKeysLock.hash|return h.Sum32()|0"
  | PGet2 -> "SegmentKeysLock.getLock|return s.locks[hash%s.size]|0"

(* the constructor runs before any goroutine exists; it is not stepped, but its text is pinned: [sk_init]
   (every segment has its own free RWMutex from the start) is its model *)
let ctor_labels = [
  "NewSegmentKeysLock|locks := make([]*sync.RWMutex, size)|0";
  "NewSegmentKeysLock|for i := range locks|0";
  "NewSegmentKeysLock|locks[i] = &sync.RWMutex{}|0";
  "NewSegmentKeysLock|return &SegmentKeysLock{ locks: locks, size: size, }|0" ]

let str_bytes (s : string) : coq_Z list = List.init (String.length s) (fun i -> z_of_int (Char.code s.[i]))
let key_hex k = match k with [] -> "-" | _ -> hex_of_bytes k
let key_of_hex h = if h = "-" then [] else bytes_of_hex h

(* "costarring"/"liquid" and "declinate"/"macallums" have EQUAL 32-bit FNV-1a hashes: they collide for every size *)
let pool : coq_Z list array = Array.map str_bytes [|
  ""; "a"; "b"; "key"; "key2"; "\xe9\x94\xae"; "\xd0\xba\xd0\xbb\xd1\x8e\xd1\x87"; "\x00"; "\xff\xfe";
  String.make 300 'x'; String.make 301 'x'; "costarring"; "liquid"; "declinate"; "macallums"; "user:1"; "user:2" |]

let cur_threads = ref 4
let cur_mode = ref 0
let cur_keys : coq_Z list array ref = ref [| [] |]

(* memo of the model's own [seg_index] (the FNV fold over a 300-byte key on Coq's binary integers is slow) *)
let idx_memo : (coq_Z * coq_Z list, coq_Z) Hashtbl.t = Hashtbl.create 64
let seg_idx size k =
  match Hashtbl.find_opt idx_memo (size, k) with
  | Some i -> i
  | None -> let i = SegKeyModel.seg_index size k in Hashtbl.replace idx_memo (size, k) i; i
let idx_of (c : sk_cfg) k = seg_idx c.sk_size k
let pc_rank = function PMeth -> 0 | PGet1 -> 1 | PH1 -> 2 | PH2 -> 3 | PH3 -> 4 | PGet2 -> 5
let in_getlock p = pc_rank p >= 1

(* one-entry cache (physical equality of the arguments): the generic driver evaluates the transition function for
   the chosen event when it selects it, when it applies it and when it computes the tags *)
let last_exec : (sk_cfg * sk_ev * (sk_cfg * sk_obs) option) option ref = ref None
let exec1 (c : sk_cfg) (e : sk_ev) =
  match !last_exec with
  | Some (c0, e0, r) when c0 == c && e0 == e -> r
  | _ -> let r = sk_exec1 c e in last_exec := Some (c, e, r); r

let shuffle rng a =
  for i = Array.length a - 1 downto 1 do
    let j = Random.State.int rng (i + 1) in
    let x = a.(i) in a.(i) <- a.(j); a.(j) <- x
  done

module M = struct
  type cfg = sk_cfg
  type ev = sk_ev
  let name = "segkeyls"

  let gen_params rng =
    let size = (match Random.State.int rng 10 with 0 | 1 -> 1 | 2 | 3 -> 2 | 4 -> 3 | _ -> 1 + Random.State.int rng 8) in
    let nthreads = 3 + Random.State.int rng 3 in
    let mode = Random.State.int rng 3 in
    let pick () = pool.(Random.State.int rng (Array.length pool)) in
    let zsize = z_of_int size in
    let keys =
      (match Random.State.int rng 4 with
       | 0 -> (* one key only: every goroutine works on equal bytes *) [pick ()]
       | 1 -> (* a pair that collides for this size, when the pool has one (always for the equal-hash pairs) *)
         let k1 = pick () in
         let same = List.filter (fun k -> k <> k1 && seg_idx zsize k = seg_idx zsize k1) (Array.to_list pool) in
         (match same with
          | [] -> [k1; pool.(11); pool.(12)]
          | l -> [k1; List.nth l (Random.State.int rng (List.length l))])
       | 2 -> [pool.(11); pool.(12); pick ()]
       | _ -> List.init (2 + Random.State.int rng 3) (fun _ -> pick ())) in
    string_of_int size :: string_of_int nthreads :: string_of_int mode :: List.map key_hex keys

  let init params =
    match params with
    | size :: nthreads :: mode :: keys ->
      cur_threads := int_of_string nthreads; cur_mode := int_of_string mode;
      cur_keys := Array.of_list (List.map key_of_hex keys);
      sk_init (z_of_string size)
    | [size] -> cur_threads := 4; cur_mode := 0; cur_keys := [| str_bytes "key"; [] |]; sk_init (z_of_string size)
    | _ -> failwith "segkeyls: params = size nthreads mode key..."

  let frame_of (c : cfg) t = List.assoc_opt (nat_of_int t) c.sk_thr

  (* mode 0: uniform.  mode 1: bunch up - goroutines standing at `return s.locks[...]` are stepped LAST and new
     calls are started first, so that several goroutines are inside getLock of (often) the same segment at once.
     mode 2: mostly sequential - the most advanced call is finished first (long histories of whole calls). *)
  let candidates rng (c : cfg) =
    let tids = List.init !cur_threads (fun i -> i + 1) in
    let keys = !cur_keys in
    let calls t =
      let n = nat_of_int t in
      let holds_mine = List.filter (fun h -> int_of_nat h.h_tid = t) c.sk_holds in
      let rel = List.concat_map (fun h ->
          let o = if h.h_write then OUnlock else ORUnlock in [SCall (n, o, h.h_key); SCall (n, o, h.h_key)]) holds_mine in
      let acq = List.init 4 (fun _ ->
          let k = keys.(Random.State.int rng (Array.length keys)) in
          let o = (match Random.State.int rng 10 with
              | 0 | 1 | 2 -> OTryLock | 3 | 4 -> OTryRLock | 5 | 6 -> ORLock | 7 -> OLock
              | 8 -> OUnlock | _ -> ORUnlock) in
          SCall (n, o, k)) in
      rel @ acq in
    let idle = List.filter (fun t -> frame_of c t = None) tids in
    let flying = List.filter (fun t -> frame_of c t <> None) tids in
    let rank t = match frame_of c t with Some f -> pc_rank f.f_pc | None -> -1 in
    let arr l = let a = Array.of_list l in shuffle rng a; Array.to_list a in
    let steps l = List.map (fun t -> SStep (nat_of_int t)) l in
    match !cur_mode with
    | 1 ->
      let early = List.filter (fun t -> rank t < 5) flying and last = List.filter (fun t -> rank t = 5) flying in
      if Random.State.int rng 8 = 0 then arr (steps flying @ List.concat_map calls idle)
      else arr (List.concat_map calls idle @ steps early) @ arr (steps last)
    | 2 ->
      let sorted = List.sort (fun a b -> compare (rank b) (rank a)) flying in
      if Random.State.int rng 5 = 0 then arr (steps flying @ List.concat_map calls idle)
      else steps sorted @ arr (List.concat_map calls idle)
    | _ -> arr (steps flying @ steps flying @ List.concat_map calls idle)

  let obs_str t = function
    | OAt (o, p) -> (t, "at " ^ label_of o p)
    | ORet (_, _, RUnit) -> (t, "ret unit")
    | ORet (_, _, RBool b) -> (t, "ret " ^ string_of_bool b)
    | OPanic -> (t, "panic runtime error: index out of range or integer divide by zero")
    | OMisuse -> (t, "fatal release of a lock the caller does not hold")
  let tid_of = function SCall (t, _, _) | SStep t -> int_of_nat t
  let apply c e =
    match exec1 c e with
    | Some (c', o) -> Some (c', [obs_str (tid_of e) o])
    | None -> None
  let line = function
    | SCall (t, o, k) -> Printf.sprintf "CALL %d %s %s" (int_of_nat t) (op_name o) (key_hex k)
    | SStep t -> Printf.sprintf "STEP %d" (int_of_nat t)
  let parse s =
    match words s with
    | ["CALL"; t; o; k] -> SCall (nat_of_int (int_of_string t), op_of_name o, key_of_hex k)
    | ["STEP"; t] -> SStep (nat_of_int (int_of_string t))
    | _ -> failwith ("parse: " ^ s)

  let tags (c : cfg) e (c' : cfg) =
    match e with
    | SCall (_, o, k) ->
      (match k with [] -> ["empty-key"] | _ -> [])
      @ (if List.exists (fun z -> int_of_z z >= 128) k then ["non-ascii-key"] else [])
      @ (if List.length k >= 300 then ["long-key"] else [])
      @ (match o with OUnlock | ORUnlock -> ["release-call"] | _ -> [])
    | SStep n ->
      (match List.assoc_opt n c.sk_thr with
       | None -> []
       | Some f ->
         let i = idx_of c f.f_key in
         let others = List.filter (fun (n2, f2) -> n2 <> n && in_getlock f2.f_pc && idx_of c f2.f_key = i) c.sk_thr in
         let t1 = if in_getlock f.f_pc && others <> [] then ["two-goroutines-in-getLock-same-segment"] else [] in
         let t1b =
           if f.f_pc = PGet2 && List.exists (fun (_, f2) -> f2.f_pc = PGet2) others
           then ["two-goroutines-at-the-index-statement-same-segment"]
                @ (if not (List.exists (fun (j, _) -> j = i) c.sk_locks) then ["first-access-to-a-segment-raced"] else [])
           else [] in
         let at_idx = List.filter (fun h -> h.h_idx = i) c.sk_holds in
         let t2 =
           (match exec1 c e with
            | Some (_, ORet (o, k, RBool false)) ->
              ["trylock-fails-while-held"]
              @ (if List.exists (fun h -> h.h_key <> k) at_idx then ["colliding-distinct-keys"] else [])
              @ (if o = OTryRLock then ["tryrlock-fails-under-writer"] else [])
              @ (if o = OTryLock && List.for_all (fun h -> not h.h_write) at_idx then ["trylock-fails-under-readers"] else [])
            | Some (_, ORet ((ORLock | OTryRLock), k, _)) ->
              let rd = List.filter (fun h -> h.h_idx = i && not h.h_write) c'.sk_holds in
              let tids = List.sort_uniq compare (List.map (fun h -> int_of_nat h.h_tid) rd) in
              (if List.length tids >= 2 then ["two-readers-share"] else [])
              @ (if List.exists (fun h -> h.h_key <> k) at_idx then ["readers-share-across-colliding-keys"] else [])
            | Some (_, ORet ((OLock | OTryLock), _, _)) -> ["write-lock-acquired"]
            | Some (_, ORet ((OUnlock | ORUnlock), _, _)) -> ["released"]
            | _ -> []) in
         let t3 =
           if List.exists (fun (n2, f2) -> f2.f_pc = PGet2 && (f2.f_op = OLock || f2.f_op = ORLock)
                                           && sk_exec1 c' (SStep n2) = None) c'.sk_thr
           then ["blocking-lock-parked-not-granted"] else [] in
         t1 @ t1b @ t2 @ t3)

  let labels =
    List.map meth_label all_ops @ List.map (label_of OLock) [PGet1; PH1; PH2; PH3; PGet2] @ ctor_labels
  let funcs = ["SegmentKeysLock.Lock"; "SegmentKeysLock.Unlock"; "SegmentKeysLock.RLock"; "SegmentKeysLock.RUnlock";
               "SegmentKeysLock.TryLock"; "SegmentKeysLock.TryRLock"; "SegmentKeysLock.getLock"; "SegmentKeysLock.hash";
               "NewSegmentKeysLock"]
  let nontrivial = ["trylock-fails-while-held"; "two-readers-share"; "two-goroutines-in-getLock-same-segment";
                    "colliding-distinct-keys"]

  (* the model's own invariant evaluated on the final configuration (a test, not the proof) *)
  let final_check (c : cfg) =
    let n = int_of_z c.sk_size in
    let bad = ref None in
    for j = 0 to n - 1 do
      let i = z_of_int j in
      let w = int_of_z (writers_at c i) and r = int_of_z (readers_at c i) in
      let word = SegKeyModel.get_lock i c.sk_locks in
      if w > 1 || (w = 1 && r > 0) then bad := Some (Printf.sprintf "segment %d: %d writers, %d readers in the model" j w r)
      else if word.SegKeyModel.rw_writer <> (w = 1) || int_of_z word.SegKeyModel.rw_readers <> r then
        bad := Some (Printf.sprintf "segment %d: lock word differs from the recorded holders in the model" j)
    done;
    !bad
end

module L = Lockstep.Make (M)
let () = Registry.register "segkeyls-lockstep" L.main
