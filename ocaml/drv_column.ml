(* driver for ColumnModel (C18): one case per line -> one observable per line.

   V  <ty>=<val> <valid> <key> <nonce> <jenc>                  EncryptColumn.Value (toy AEAD: only the framing,
                                                                the plaintext serialisation and the length are observable)
   S  <ty>=<prior> <pv> <key> <bytes|string> <pt> <sealkey> <jdec>
                                                                Scan of nonce ++ toy_seal sealkey nonce pt
   X  <ty>=<prior> <pv> <key> <src> <jdec> <log>               Scan of a raw source in the IDEAL WORLD: open = look-up in
                                                                the log `k,n,c,m;...` of issued ciphertexts (`-` = empty)
   JV <ty>=<val> <valid> <jenc>                                 JsonColumn.Value
   JX <ty>=<prior> <pv> <src> <jdec>                            JsonColumn.Scan
   E  <kind> <z>                                                encode_num
   D  <kind> <hex>                                              decode_num

   The abstract JSON codec of the model is instantiated by the oracle fields
   (jenc = h<hex> | err | -,   jdec = <reprhex>:<0|1> | -), i.e. by what encoding/json itself
   answered for this value in the harness; JSON-typed values are interned text. *)
open BinNums
open Zutil
open ColumnModel

let unh s = if String.length s > 0 && s.[0] = 'h' then String.sub s 1 (String.length s - 1) else s
(* large byte strings recur from case to case (the same ciphertext corrupted in several ways): parse once *)
let memo : (string, coq_Z list) Hashtbl.t = Hashtbl.create 16
let hexb s =
  let h = unh s in
  if String.length h < 4096 then bytes_of_hex h
  else match Hashtbl.find_opt memo h with
    | Some l -> l
    | None ->
      if Hashtbl.length memo > 8 then Hashtbl.reset memo;
      let l = bytes_of_hex h in Hashtbl.replace memo h l; l

(* interning of JSON-typed values: model value = index *)
let tbl : (string, int) Hashtbl.t = Hashtbl.create 64
let rev : (int, string) Hashtbl.t = Hashtbl.create 64
let intern s =
  match Hashtbl.find_opt tbl s with
  | Some i -> i
  | None -> let i = Hashtbl.length tbl in Hashtbl.replace tbl s i; Hashtbl.replace rev i s; i
let extern z = match Hashtbl.find_opt rev (int_of_z z) with Some s -> s | None -> "UNKNOWN"

let kind_of_string = function
  | "i8" -> NI8 | "i16" -> NI16 | "i32" -> NI32 | "i64" -> NI64
  | "u8" -> NU8 | "u16" -> NU16 | "u32" -> NU32 | "u64" -> NU64
  | "int" -> NInt | "uint" -> NUint | "f32" -> NF32 | "f64" -> NF64
  | s -> failwith ("kind " ^ s)

let split_tv s =
  match String.index_opt s '=' with
  | Some i -> (String.sub s 0 i, String.sub s (i + 1) (String.length s - i - 1))
  | None -> failwith ("value " ^ s)

let is_json ty = String.length ty >= 5 && String.sub ty 0 5 = "json:"

let cval_of ty v : coq_Z cval =
  if ty = "str" then VStr (hexb v)
  else if ty = "bytes" then VBytes (if v = "nil" then [] else hexb v)   (* nil and empty []byte are identified *)
  else if is_json ty then VJson (z_of_int (intern v))
  else VNum (kind_of_string ty, z_of_string v)

let show_val ty (v : coq_Z cval) =
  ty ^ "=" ^
  (match v with
   | VStr b -> hex_of_bytes b
   | VBytes b -> hex_of_bytes b
   | VNum (_, z) -> z_to_string z
   | VJson x -> extern x)

let err_name = function
  | CInvalid -> "invalid" | CKeyLen -> "keylen" | CSrcType -> "other" | CShort -> "short"
  | CAuth -> "auth" | CEOF -> "eof" | CUnexpectedEOF -> "ueof" | CJson -> "json"

let show_sres = function SOk -> "ok" | SErr e -> "err " ^ err_name e | SPanic -> "panic"

let missing = ref false
let jenc_of s : coq_Z -> bytes option =
  fun _ -> if s = "err" then None else if s = "-" then (missing := true; None) else Some (hexb s)
let jdec_of s : coq_Z -> bytes -> coq_Z * bool =
  fun old _ ->
    if s = "-" then (missing := true; (old, false))
    else match split_on ':' s with
      | [r; okf] -> (z_of_int (intern r), okf = "1")
      | _ -> failwith ("jdec " ^ s)

let src_of s =
  let pre p = String.length s >= String.length p && String.sub s 0 (String.length p) = p in
  let rest p = String.sub s (String.length p) (String.length s - String.length p) in
  if pre "bytes:" then SBytes (hexb (rest "bytes:"))
  else if pre "string:" then SString (hexb (rest "string:"))
  else if s = "nil" then SNil
  else SOther

let log_of s : log_entry list =
  if s = "-" then []
  else List.map (fun e ->
      match split_on ',' e with
      | [k; n; c; m] -> (((hexb k, hexb n), hexb c), hexb m)
      | _ -> failwith ("log " ^ e)) (split_on ';' s)

let take n l =
  let rec go n l acc = if n <= 0 then List.rev acc else match l with [] -> List.rev acc | x :: t -> go (n - 1) t (x :: acc) in
  go n l []
let rec drop n l = if n <= 0 then l else match l with [] -> [] | _ :: t -> drop (n - 1) t

let flag s = if !missing then s ^ " ORACLE-MISSING" else s

let zeros16 = List.init 16 (fun _ -> z_of_int 0)
let nonce0 = List.init 12 (fun i -> z_of_int (i + 1))

let one pinned line =
  missing := false;
  match words line with
  | ["V"; tv; valid; key; nonce; jenc] ->
    let (ty, v) = split_tv tv in
    let c = { coq_val = cval_of ty v; valid = (valid = "1"); ckey = hexb key } in
    (* only framing, plaintext and length are observable here, so a cheap 16-byte tag stands in for the AEAD
       (toy_tag costs a 128-bit multiplication per byte: too slow for megabyte plaintexts) *)
    (match value (jenc_of jenc) (fun _ _ m -> List.rev_append (List.rev m) zeros16) (hexb nonce) c with
     | COk stored ->
       let n = List.length stored in
       flag (Printf.sprintf "ok nonce=%s pt=h%s len=%d" (hex_of_bytes (take 12 stored))
               (hex_of_bytes (take (n - 28) (drop 12 stored))) n)
     | CErr e -> flag ("err " ^ err_name e)
     | CPanic -> "panic")
  | ["S"; tv; pv; key; sk; pt; sealkey; jdec] ->
    let (ty, v) = split_tv tv in
    let c = { coq_val = cval_of ty v; valid = (pv = "1"); ckey = hexb key } in
    let stored = nonce0 @ toy_seal (hexb sealkey) nonce0 (hexb pt) in
    let s = if sk = "string" then SString stored else SBytes stored in
    let (c', r) = scan_toy (jdec_of jdec) pinned c s in
    flag (Printf.sprintf "%s val=%s valid=%s" (show_sres r) (show_val ty c'.coq_val) (if c'.valid then "1" else "0"))
  | ["X"; tv; pv; key; src; jdec; log] ->
    let (ty, v) = split_tv tv in
    let c = { coq_val = cval_of ty v; valid = (pv = "1"); ckey = hexb key } in
    let (c', r) =
      if pinned then scan (jdec_of jdec) (log_open (log_of log)) true c (src_of src)
      else scan_log (jdec_of jdec) (log_of log) c (src_of src) in
    flag (Printf.sprintf "%s val=%s valid=%s" (show_sres r) (show_val ty c'.coq_val) (if c'.valid then "1" else "0"))
  | ["JV"; tv; valid; jenc] ->
    let (_, v) = split_tv tv in
    let c = { jval = z_of_int (intern v); jvalid = (valid = "1") } in
    (match jvalue_z (jenc_of jenc) c with
     | COk None -> flag "ok null"
     | COk (Some b) -> flag ("ok h" ^ hex_of_bytes b)
     | CErr e -> flag ("err " ^ err_name e)
     | CPanic -> "panic")
  | ["JX"; tv; pv; src; jdec] ->
    let (ty, v) = split_tv tv in
    let c = { jval = z_of_int (intern v); jvalid = (pv = "1") } in
    let (c', r) = jscan_z (jdec_of jdec) c (src_of src) in
    flag (Printf.sprintf "%s val=%s=%s valid=%s" (show_sres r) ty (extern c'.jval) (if c'.jvalid then "1" else "0"))
  | ["E"; k; z] -> "h" ^ hex_of_bytes (encode_num (kind_of_string k) (z_of_string z))
  | ["D"; k; h] ->
    (match decode_num (kind_of_string k) (hexb h) with
     | COk z -> "ok " ^ z_to_string z
     | CErr e -> "err " ^ err_name e
     | CPanic -> "panic")
  | _ -> "badcase"

let run pinned = iter_lines (fun line -> print_endline (try one pinned line with Failure m -> "badcase " ^ m))

let () =
  Registry.register "column" (fun _ -> run false);
  Registry.register "column-pinned" (fun _ -> run true)
