(* driver for SliceModel (C16): one call per line -> one observable line.
   case:  <ty> <Func> <args...>      ty = i | s (element type used on the Go side; ignored here)
   slice: nil | [] | [1,2,3]     pairs: nil | [] | [1:2,3:4]     flat: nil | [] | [1,x,3] (x = not an int)
   pred:  eq:C lt:C even odd true false idxlt:C idxeven     mapf: add:C mul:C const:C idx idxadd rem3
   equal: eq mod3 le lt *)
open Zutil
open SliceModel

let strip_brackets s =
  let n = String.length s in
  if n < 2 || s.[0] <> '[' || s.[n - 1] <> ']' then failwith ("list " ^ s);
  String.sub s 1 (n - 2)
(* strict: at least one digit *)
let z_of_string s = if s = "" || s = "-" then failwith "int" else Zutil.z_of_string s
let items s = if s = "" then [] else split_on ',' s

let slice_of_string s =
  if s = "nil" then None else Some (List.map z_of_string (items (strip_brackets s)))
let pair_of_string s =
  match split_on ':' s with [k; v] -> (z_of_string k, z_of_string v) | _ -> failwith ("pair " ^ s)
let pairs_of_string s =
  if s = "nil" then None else Some (List.map pair_of_string (items (strip_brackets s)))
let flat_of_string s =
  if s = "nil" then None
  else Some (List.map (fun x -> if x = "x" then FBad else FInt (z_of_string x)) (items (strip_brackets s)))

let pred_of_string s =
  match split_on ':' s with
  | ["eq"; c] -> PEq (z_of_string c) | ["lt"; c] -> PLt (z_of_string c)
  | ["even"] -> PEven | ["odd"] -> POdd | ["true"] -> PConst true | ["false"] -> PConst false
  | ["idxlt"; c] -> PIdxLt (z_of_string c) | ["idxeven"] -> PIdxEven
  | _ -> failwith ("pred " ^ s)
let mapf_of_string s =
  match split_on ':' s with
  | ["add"; c] -> MAdd (z_of_string c) | ["mul"; c] -> MMul (z_of_string c)
  | ["const"; c] -> MConst (z_of_string c) | ["idx"] -> MIdx | ["idxadd"] -> MIdxAdd | ["rem3"] -> MRem3
  | _ -> failwith ("mapf " ^ s)
let eqf_of_string = function
  | "eq" -> EEq | "mod3" -> EMod3 | "le" -> ELe | "lt" -> ELt | s -> failwith ("eqf " ^ s)

let sl = slice_of_string
let z = z_of_string

let call_of_words = function
  | ["UnionSet"; a; b] -> CUnionSet (sl a, sl b)
  | ["IntersectSet"; a; b] -> CIntersectSet (sl a, sl b)
  | ["DiffSet"; a; b] -> CDiffSet (sl a, sl b)
  | ["SymmetricDiffSet"; a; b] -> CSymDiffSet (sl a, sl b)
  | ["ContainsAny"; a; b] -> CContainsAny (sl a, sl b)
  | ["ContainsAll"; a; b] -> CContainsAll (sl a, sl b)
  | ["UnionSetFunc"; e; a; b] -> CUnionSetFunc (eqf_of_string e, sl a, sl b)
  | ["IntersectSetFunc"; e; a; b] -> CIntersectSetFunc (eqf_of_string e, sl a, sl b)
  | ["DiffSetFunc"; e; a; b] -> CDiffSetFunc (eqf_of_string e, sl a, sl b)
  | ["SymmetricDiffSetFunc"; e; a; b] -> CSymDiffSetFunc (eqf_of_string e, sl a, sl b)
  | ["ContainsAnyFunc"; e; a; b] -> CContainsAnyFunc (eqf_of_string e, sl a, sl b)
  | ["ContainsAllFunc"; e; a; b] -> CContainsAllFunc (eqf_of_string e, sl a, sl b)
  | ["Contains"; a; x] -> CContains (sl a, z x)
  | ["ContainsFunc"; a; p] -> CContainsFunc (sl a, pred_of_string p)
  | ["Index"; a; x] -> CIndex (sl a, z x)
  | ["IndexFunc"; a; p] -> CIndexFunc (sl a, pred_of_string p)
  | ["LastIndex"; a; x] -> CLastIndex (sl a, z x)
  | ["LastIndexFunc"; a; p] -> CLastIndexFunc (sl a, pred_of_string p)
  | ["IndexAll"; a; x] -> CIndexAll (sl a, z x)
  | ["IndexAllFunc"; a; p] -> CIndexAllFunc (sl a, pred_of_string p)
  | ["Find"; a; p] -> CFind (sl a, pred_of_string p)
  | ["FindAll"; a; p] -> CFindAll (sl a, pred_of_string p)
  | ["FilterMap"; a; f; p] -> CFilterMap (sl a, mapf_of_string f, pred_of_string p)
  | ["Map"; a; f] -> CMap (sl a, mapf_of_string f)
  | ["ToMap"; a; f] -> CToMap (sl a, mapf_of_string f)
  | ["ToMapV"; a; fk; fv] -> CToMapV (sl a, mapf_of_string fk, mapf_of_string fv)
  | ["Reverse"; a] -> CReverse (sl a)
  | ["ReverseSelf"; a] -> CReverseSelf (sl a)
  | ["Delete"; a; i] -> CDelete (sl a, z i)
  | ["FilterDelete"; a; p] -> CFilterDelete (sl a, pred_of_string p)
  | ["Add"; sp; a; e; i] -> CAdd (sp = "1", sl a, z e, z i)
  | ["Max"; a] -> CMax (sl a)
  | ["Min"; a] -> CMin (sl a)
  | ["Sum"; a] -> CSum (sl a)
  | ["Keys"; m] -> CKeys (pairs_of_string m)
  | ["Values"; m] -> CValues (pairs_of_string m)
  | ["KeysValues"; m] -> CKeysValues (pairs_of_string m)
  | ["MapxToMap"; k; v] -> CMapxToMap (sl k, sl v)
  | ["NewPairs"; k; v] -> CNewPairs (sl k, sl v)
  | ["SplitPairs"; p] -> CSplitPairs (pairs_of_string p)
  | ["FlattenPairs"; p] -> CFlattenPairs (pairs_of_string p)
  | ["PackPairs"; f] -> CPackPairs (flat_of_string f)
  | w -> failwith ("call " ^ String.concat " " w)

let show_list open_ close_ nil f = function
  | None -> nil
  | Some l -> open_ ^ String.concat "," (List.map f l) ^ close_
let show_pair (k, v) = z_to_string k ^ ":" ^ z_to_string v
let show_err = function Common.EIndex -> "err:index" | _ -> "err:other"

let show_ov = function
  | VInt x -> "i:" ^ z_to_string x
  | VBool b -> if b then "b:1" else "b:0"
  | VSlice s -> show_list "[" "]" "nil" z_to_string s
  | VSet s -> show_list "{" "}" "{nil}" z_to_string s
  | VPairs p -> show_list "<" ">" "<nil>" show_pair p
  | VMap p -> show_list "m{" "}" "mnil" show_pair p
  | VFlat f -> show_list "f[" "]" "fnil" (function FInt x -> z_to_string x | FBad -> "x") f
  | VErr e -> show_err e
  | VPanic -> "panic"

(* ---- memory observables (SliceMemModel3.mem_run3 = SliceMemModel2.mem_run + KeysValues): for every result slice "r@nil", "r@empty" (cap 0),
   "r@<k>+<offset>,<len>,<cap>" when it lies in argument array k, "r@new,<len>" otherwise;
   then every argument array cell by cell ---- *)
let layout_of_ty ty =
  match split_on '@' ty with
  | [_] -> (0, 0)
  | [_; l] -> (match split_on ',' l with
               | [o; sp] -> (int_of_string o, int_of_string sp)
               | _ -> failwith "layout")
  | _ -> failwith "layout"

let show_res nargs = function
  | None -> "r@nil"
  | Some h ->
    let open SliceMemModel in
    let a = int_of_nat h.h_arr and o = int_of_nat h.h_off and n = int_of_nat h.h_len and c = int_of_nat h.h_cap in
    if c = 0 then "r@empty"
    else if a < nargs then Printf.sprintf "r@%d+%d,%d,%d" a o n c
    else Printf.sprintf "r@new,%d" n

let show_mem ((nargs, results), store) =
  let nargs = int_of_nat nargs in
  let arrs = List.filteri (fun i _ -> i < nargs) store in
  String.concat " "
    (List.map (show_res nargs) results
     @ List.mapi (fun k a -> Printf.sprintf "A%d[%s]" k (String.concat "," (List.map z_to_string a))) arrs)

(* SliceAggModel: int8 / uint8 / float64 aggregates and the single-pair functions *)
let call2_of_words = function
  | ["MaxI8"; a] -> Some (SliceAggModel.C2Max8 (true, sl a)) | ["MaxU8"; a] -> Some (SliceAggModel.C2Max8 (false, sl a))
  | ["MinI8"; a] -> Some (SliceAggModel.C2Min8 (true, sl a)) | ["MinU8"; a] -> Some (SliceAggModel.C2Min8 (false, sl a))
  | ["SumI8"; a] -> Some (SliceAggModel.C2Sum8 (true, sl a)) | ["SumU8"; a] -> Some (SliceAggModel.C2Sum8 (false, sl a))
  | ["MaxF64"; a] -> Some (SliceAggModel.C2MaxF (pairs_of_string a))
  | ["MinF64"; a] -> Some (SliceAggModel.C2MinF (pairs_of_string a))
  | ["NewPair"; k; v] -> Some (SliceAggModel.C2NewPair (z k, z v))
  | ["PairSplit"; k; v] -> Some (SliceAggModel.C2Split (z k, z v))
  | ["PairString"; k; v] -> Some (SliceAggModel.C2String (z k, z v))
  | _ -> None

let run () =
  iter_lines (fun line ->
    match words line with
    | _ :: rest when (try call2_of_words rest <> None with Failure _ | Invalid_argument _ -> false) ->
      (match call2_of_words rest with
       | Some c -> print_endline (String.concat " " (List.map show_ov (SliceAggModel.run2 c)))
       | None -> print_endline "badcase")
    | ty :: rest ->
      (match (try Some (call_of_words rest, layout_of_ty ty) with Failure _ | Invalid_argument _ -> None) with
       | Some (c, (off, spare)) ->
         let main = String.concat " " (List.map show_ov (SliceModel.run c)) in
         (match SliceMemModel3.mem_run3 (nat_of_int off) (nat_of_int spare) c with
          | Some m -> print_endline (main ^ " | " ^ show_mem m)
          | None -> print_endline main)
       | None -> print_endline "badcase")
    | [] -> print_endline "badcase")

let () = Registry.register "slice" (fun _ -> run ())
