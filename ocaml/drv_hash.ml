(* driver for HashModel / DecorModel (C03, decorator part shared with C01):
   one history per line -> one line of observables, same format as harness/c03.
     modelrun hash        the concrete models
     modelrun hash-spec   the abstract specification (search oracle): ret/len/keys/vals only
     modelrun hash-wf     lines "<code> <eq> <dump>" -> true/false : the WF invariant on a bucket dump *)
open BinNums
open Zutil
open DecorSpec
open HashModel
open DecorModel

let two64 = z_of_string "18446744073709551616"

let families code eq =
  let lawless = String.length code > 0 && code.[0] = 'L' in
  let code = if lawless then String.sub code 1 (String.length code - 1) else code in
  let m = match code with
    | "m64" | "-" -> two64
    | s -> z_of_string (String.sub s 1 (String.length s - 1)) in
  let half = (eq = "h") in
  let codef = if half && not lawless then code_half m else code_mod m in
  let eqf = if half then eqb_half else eqb_exact in
  (codef, eqf)

let zs sep l = String.concat sep (List.map z_to_string l)
let inner l = "[" ^ zs "." l ^ "]"
let b2s b = if b then "1" else "0"
let choice s = let n = int_of_string s in if n < 0 then None else Some (nat_of_int n)

exception Stop

(* a leading '!' marks an unobserved op: only its own return value is printed *)
let strip_quiet quiet op =
  if String.length op > 0 && op.[0] = '!' then (quiet := true; String.sub op 1 (String.length op - 1))
  else (quiet := false; op)

(* ---- single-valued maps: a step function over 'st plus renderers ---- *)
(* observation: ret/len/keys/vals/dump/nil/align/backward.  nil = "" : every container builds its
   Keys()/Values() result with make(..., 0, n), never nil (hashmap.go, linkedmap.go, multi_map.go,
   map.go, red_black_tree.go KeyValues, set.go); align = "ok" where the model proves that Keys[i] and
   Values[i] belong together (linked maps, tree-backed maps), "" elsewhere *)
let run_smap (type st) ?(aligned = false) (step : st -> coq_Z mop -> st * coq_Z mout) (init : st)
    (dump : (st -> string) option) (backward : (st -> string) option) ops =
  let st = ref init in
  let out = ref [] in
  let call o = let (s', r) = step !st o in st := s'; r in
  let quiet = ref false in
  let obs ret = if !quiet then ret else
    let len = match call MLen with RLen n -> z_to_string n | _ -> "?" in
    let keys = match call MKeys with RKeys l -> zs ";" l | ROutOfFuel -> "outoffuel" | _ -> "?" in
    let vals = match call MValues with RVals l -> zs ";" l | ROutOfFuel -> "outoffuel" | _ -> "?" in
    let d = match dump with Some f -> f !st | None -> "" in
    let b = match backward with Some f -> f !st | None -> "" in
    ret ^ "/" ^ len ^ "/" ^ keys ^ "/" ^ vals ^ "/" ^ d ^ "/" ^ "/" ^ (if aligned then "ok" else "") ^ "/" ^ b in
  (try
    List.iter (fun op ->
      let op = strip_quiet quiet op in
      match split_on ':' op with
      | ["p"; k; v; ch] ->
        (match call (MPut (z_of_string k, z_of_string v, choice ch)) with
         | RPut (Common.Ok _) -> out := obs "ok" :: !out
         | RPut Common.Panic -> out := "panic" :: !out; raise Stop
         | _ -> out := obs "err" :: !out)
      | ["g"; k] ->
        (match call (MGet (z_of_string k)) with
         | RFound (v, ok) -> out := obs (z_to_string v ^ "," ^ b2s ok) :: !out
         | _ -> out := "?" :: !out)
      | ["d"; k] ->
        (match call (MDelete (z_of_string k)) with
         | RFound (v, ok) -> out := obs (z_to_string v ^ "," ^ b2s ok) :: !out
         | _ -> out := "?" :: !out)
      | _ -> out := "badop" :: !out) ops
  with Stop -> ());
  String.concat "|" (List.rev !out)

let dump_tbl (render : coq_Z * 'v -> string) (s : 'v hstate) =
  String.concat "&" (List.map (fun (h, c) ->
    match c with
    | [] -> z_to_string h ^ "=nil"
    | _ -> z_to_string h ^ "=" ^ String.concat ">" (List.map render c)) s.tbl)
  ^ "#" ^ z_to_string s.size

(* the order list walked through the prev pointers, from tail to head (rendering only) *)
let backward_keys (s : (coq_Z, 'm) lstate) =
  let rec go cur guard acc =
    if cur = coq_HEAD || guard = 0 then List.rev acc
    else go (s.heap cur).lprev (guard - 1) ((s.heap cur).lkey :: acc) in
  zs ";" (go (s.heap coq_TAIL).lprev (int_of_nat s.nalloc + 2) [])

(* ---- multi maps ---- *)
let run_mmap (type st) ?(aligned = false) (step : st -> coq_Z mmop -> st * coq_Z mmout) (init : st)
    (dump : (st -> string) option) ops =
  let st = ref init in
  let out = ref [] in
  let call o = let (s', r) = step !st o in st := s'; r in
  let quiet = ref false in
  let obs ret = if !quiet then ret else
    let len = match call MMLen with MRLen n -> z_to_string n | _ -> "?" in
    let keys = match call MMKeys with MRKeys l -> zs ";" l | _ -> "?" in
    let vals = match call MMValues with MRVals l -> String.concat ";" (List.map inner l) | _ -> "?" in
    let d = match dump with Some f -> f !st | None -> "" in
    ret ^ "/" ^ len ^ "/" ^ keys ^ "/" ^ vals ^ "/" ^ d ^ "/" ^ "/" ^ (if aligned then "ok" else "") ^ "/" in
  List.iter (fun op ->
    let op = strip_quiet quiet op in
    match split_on ':' op with
    | ["P"; k; vs; ch] ->
      let vs = if vs = "" then [] else List.map z_of_string (split_on '.' vs) in
      (match call (MMPutMany (z_of_string k, vs, choice ch)) with
       | MRPut -> out := obs "ok" :: !out
       | _ -> out := "?" :: !out)
    | ["g"; k] ->
      (match call (MMGet (z_of_string k)) with
       | MRFound (v, ok) -> out := obs ((if ok then "" else "~") ^ inner v ^ "," ^ b2s ok) :: !out   (* nil iff absent *)
       | _ -> out := "?" :: !out)
    | ["d"; k] ->
      (match call (MMDelete (z_of_string k)) with
       | MRFound (v, ok) -> out := obs (inner v ^ "," ^ b2s ok) :: !out
       | _ -> out := "?" :: !out)
    | _ -> out := "badop" :: !out) ops;
  String.concat "|" (List.rev !out)

let run_set ops =
  let st = ref [] in
  let out = ref [] in
  let call o = let (s', r) = set_step !st o in st := s'; r in
  let quiet = ref false in
  List.iter (fun op ->
    let op = strip_quiet quiet op in
    let ret = match split_on ':' op with
      | ["a"; k] -> ignore (call (SAdd (z_of_string k))); "unit"
      | ["d"; k] -> ignore (call (SDelete (z_of_string k))); "unit"
      | ["e"; k] -> (match call (SExist (z_of_string k)) with SRBool b -> b2s b | _ -> "?")
      | _ -> "badop" in
    if !quiet then out := ret :: !out
    else
      let keys = match call SKeys with SRKeys l -> zs ";" l | _ -> "?" in
      out := (ret ^ "/" ^ keys ^ "/") :: !out) ops;
  String.concat "|" (List.rev !out)

let z0 = Z0

let run_history spec container code eq ops =
  let (codef, eqf) = families code eq in
  let kv (k, v) = z_to_string k ^ ":" ^ z_to_string v in
  if spec then
    (match container with
     | "hash" | "lhm" | "ltm" | "builtin" ->
       let eqf = if container = "builtin" then eqb_exact else eqf in
       run_smap (astep z0 eqf) [] None None ops
     | "mhm" | "mtm" -> run_mmap (mm_spec_step eqf) [] None ops
     | "set" -> run_set ops
     | _ -> "badcontainer")
  else
    match container with
    | "hash" -> run_smap (hstep z0 codef eqf) hinit (Some (dump_tbl kv)) None ops
    | "lhm" ->
      let b = hash_backing Datatypes.O codef eqf in
      run_smap ~aligned:true (lstep z0 b) (linit z0 hinit)
        (Some (fun s -> dump_tbl (fun (k, _) -> z_to_string k) s.lm)) (Some backward_keys) ops
    | "ltm" ->
      let b = abs_backing Datatypes.O eqf in
      run_smap ~aligned:true (lstep z0 b) (linit z0 []) None (Some backward_keys) ops
    | "builtin" -> run_smap builtin_step [] None None ops
    | "mhm" ->
      let b = hash_backing [] codef eqf in
      run_mmap (mmstep b) hinit (Some (dump_tbl (fun (k, v) -> z_to_string k ^ ":" ^ inner v))) ops
    | "mtm" -> run_mmap ~aligned:true (mmstep (abs_backing [] eqf)) [] None ops
    | "set" -> run_set ops
    | _ -> "badcontainer"

let run spec =
  iter_lines (fun line ->
    match words line with
    | container :: code :: eq :: rest ->
      let ops = match rest with [] -> [] | o :: _ -> split_on ',' o in
      print_endline (run_history spec container code eq ops)
    | _ -> print_endline "badcase")

(* "<code> <eq> <dump>": dump = buckets joined by & , "h=k:v>k:v" or "h=nil", then #size *)
let run_wf () =
  iter_lines (fun line ->
    match words line with
    | [code; eq; dump] ->
      let (codef, eqf) = families code eq in
      (match split_on '#' dump with
       | [bs; sz] ->
         let buckets = if bs = "" then [] else split_on '&' bs in
         let tbl = List.map (fun b ->
           match split_on '=' b with
           | [h; "nil"] -> (z_of_string h, [])
           | [h; c] -> (z_of_string h, List.map (fun n ->
               match split_on ':' n with
               | k :: _ -> (z_of_string k, ())
               | [] -> failwith "node") (split_on '>' c))
           | _ -> failwith "bucket") buckets in
         print_endline (if dump_wfb codef eqf tbl (z_of_string sz) then "true" else "false")
       | _ -> print_endline "baddump")
    | _ -> print_endline "badcase")

let () =
  Registry.register "hash" (fun _ -> run false);
  Registry.register "hash-spec" (fun _ -> run true);
  Registry.register "hash-wf" (fun _ -> run_wf ())
