//go:build verif

// Accessor for the task wrapper Submit puts around a task (separate file: when the wrapper type is removed or renamed
// the harness build falls back to x_pool_verif_wrap.go.fallback, see checks/common.py build_harness).
package pool

// VerifUnwrap removes the taskWrapper layers Submit put around a task; depth = number of layers.
func VerifUnwrap(t Task) (inner Task, depth int) {
	for {
		w, ok := t.(*taskWrapper)
		if !ok {
			return t, depth
		}
		t = w.t
		depth++
	}
}
