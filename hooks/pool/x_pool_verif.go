//go:build verif

// White-box accessors for the C10/C11/C12 correspondence checks of OnDemandBlockTaskPool
// (add-only, read-only; overlaid into /repo/pool at harness build time, never committed there).
package pool

import (
	"context"
	"errors"
	"fmt"
	"sort"
	"strings"
	"sync/atomic"
)

// VerifErrClass maps the package's unexported sentinel errors to class names.
func VerifErrClass(err error) string {
	switch {
	case err == nil:
		return "nil"
	case errors.Is(err, errTaskIsInvalid):
		return "invalid"
	case errors.Is(err, errTaskPoolIsClosing):
		return "closing"
	case errors.Is(err, errTaskPoolIsStopped):
		return "stopped"
	case errors.Is(err, errTaskPoolIsStarted):
		return "started"
	case errors.Is(err, errTaskPoolIsNotRunning):
		return "notrunning"
	case errors.Is(err, errInvalidArgument):
		return "invalidargument"
	case errors.Is(err, context.Canceled), errors.Is(err, context.DeadlineExceeded):
		return "ctx"
	}
	return "other:" + err.Error()
}

// VerifSnapshot reads the pool's fields WITHOUT taking its locks (the lock-step controller calls it
// only while every goroutine of the pool is stopped at a yield point or parked).
func (b *OnDemandBlockTaskPool) VerifSnapshot() string {
	ids := make([]int, 0, len(b.timeoutGroup.mp))
	for k := range b.timeoutGroup.mp {
		ids = append(ids, k)
	}
	sort.Ints(ids)
	s := make([]string, len(ids))
	for i, k := range ids {
		s[i] = fmt.Sprint(k)
	}
	ictx := 0
	if b.interruptCtx.Err() != nil {
		ictx = 1
	}
	return fmt.Sprintf("st=%d total=%d run=%d qlen=%d gn=%d mp=[%s] idc=%d ictx=%d",
		atomic.LoadInt32(&b.state), b.totalGo, atomic.LoadInt32(&b.numGoRunningTasks), len(b.queue),
		b.timeoutGroup.n, strings.Join(s, ","), b.verifIDC(), ictx)
}

// VerifConfig reports the configuration the constructor computed (after the defaulting rule).
func (b *OnDemandBlockTaskPool) VerifConfig() string {
	return fmt.Sprintf("init=%d core=%d max=%d cap=%d rate=%g", b.initGo, b.coreGo, b.maxGo, cap(b.queue), b.queueBacklogRate)
}

// VerifRunning is numGoRunningTasks.
func (b *OnDemandBlockTaskPool) VerifRunning() int32 { return atomic.LoadInt32(&b.numGoRunningTasks) }

// VerifState is the raw state word.
func (b *OnDemandBlockTaskPool) VerifState() int32 { return atomic.LoadInt32(&b.state) }
