//go:build verif

// Accessor for the live worker count (separate file: it goes through the pool's own numOfGo, whatever lock that
// takes; when numOfGo is removed or renamed the harness build falls back to x_pool_verif_numgo.go.fallback).
package pool

// VerifNumGo is the live worker count as the pool itself reads it.
func (b *OnDemandBlockTaskPool) VerifNumGo() int32 { return b.numOfGo() }
