//go:build verif

// Accessor for the worker-id counter (separate file: when the field is removed or renamed the harness build falls back
// to x_pool_verif_id.go.fallback, see checks/common.py build_harness).
package pool

import "sync/atomic"

func (b *OnDemandBlockTaskPool) verifIDC() int32 { return atomic.LoadInt32(&b.id) }
