//go:build verif

// White-box accessor for the C05 correspondence check (add-only, read-only).
package queue

// VerifHeapDump returns a copy of the heap array data[1:] (the unused slot 0 is dropped);
// ok is false when slot 0 itself is missing.
func (p *PriorityQueue[T]) VerifHeapDump() (arr []T, ok bool) {
	if len(p.data) < 1 {
		return nil, false
	}
	arr = make([]T, len(p.data)-1)
	copy(arr, p.data[1:])
	return arr, true
}

// VerifDataCap returns cap(p.data) (slot 0 included), for the capacity rule of C05 (HeapCapModel).
func (p *PriorityQueue[T]) VerifDataCap() int { return cap(p.data) }
