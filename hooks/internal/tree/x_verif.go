//go:build verif

// Read-only white-box accessors for the /verif correspondence checks (C01, C02).
// Overlaid into this package at build time (go build -tags verif -overlay ...); never
// committed to the repository.  Adds methods only; changes no existing line.
package tree

import "strings"

// VerifDump walks the tree without modifying it and returns
//   - the exact shape as an s-expression: "." for nil, "(<left> <key> <R|B> <right>)" for a node
//     ("<key>=<value>" instead of "<key>" when fv != nil),
//   - the size field,
//   - whether some node's parent pointer is not the node it hangs from (or root.parent != nil).
//
// A corrupted tree (cycle through child pointers) ends the walk after a node budget and puts
// "!CYCLE" into the shape.
func (rb *RBTree[K, V]) VerifDump(fk func(K) string, fv func(V) string) (shape string, size int, badParent bool) {
	if rb == nil {
		return ".", 0, false
	}
	var sb strings.Builder
	budget := 4*rb.size + 4096
	if budget < 4096 {
		budget = 4096
	}
	var walk func(n, parent *rbNode[K, V], depth int)
	walk = func(n, parent *rbNode[K, V], depth int) {
		if n == nil {
			sb.WriteByte('.')
			return
		}
		if budget <= 0 || depth > 100000 {
			sb.WriteString("!CYCLE")
			return
		}
		budget--
		if n.parent != parent {
			badParent = true
		}
		sb.WriteByte('(')
		walk(n.left, n, depth+1)
		sb.WriteByte(' ')
		sb.WriteString(fk(n.key))
		if fv != nil {
			sb.WriteByte('=')
			sb.WriteString(fv(n.value))
		}
		if n.color == Red {
			sb.WriteString(" R ")
		} else {
			sb.WriteString(" B ")
		}
		walk(n.right, n, depth+1)
		sb.WriteByte(')')
	}
	walk(rb.root, nil, 0)
	return sb.String(), rb.size, badParent
}

// VerifSize returns the size field (not the node count).
func (rb *RBTree[K, V]) VerifSize() int {
	if rb == nil {
		return 0
	}
	return rb.size
}

// VerifErrClass maps this package's error values to the class names used by the checks.
func VerifErrClass(err error) string {
	switch err {
	case nil:
		return "ok"
	case ErrRBTreeSameRBNode:
		return "err:dup"
	case ErrRBTreeNotRBNode:
		return "err:absent"
	}
	return "err:other"
}
