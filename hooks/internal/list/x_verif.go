//go:build verif

// White-box accessors for the correspondence check of the skip list (C05).  Add-only: nothing
// here writes to a SkipList.
package list

// VerifSkipNode describes one node met while walking a level's chain: ID is the node's pointer
// (boxed, so that it is comparable and keeps the node alive), Height is len(Forward).
type VerifSkipNode[T any] struct {
	ID     any
	Val    T
	Height int
}

// VerifSkipDump is the whole index: for every level i in [0, MaxLevel) the chain reachable from
// the header via Forward[i].  Broken[i] is "" for a nil-terminated chain, "cycle" when a node
// repeats, "short" when a node on level i has fewer than i+1 forward pointers.
type VerifSkipDump[T any] struct {
	Level  int
	Size   int
	Chains [][]VerifSkipNode[T]
	Broken []string
}

func (sl *SkipList[T]) VerifDump() VerifSkipDump[T] {
	d := VerifSkipDump[T]{Level: sl.level, Size: sl.size,
		Chains: make([][]VerifSkipNode[T], MaxLevel), Broken: make([]string, MaxLevel)}
	for i := 0; i < MaxLevel; i++ {
		if i >= len(sl.header.Forward) {
			d.Broken[i] = "short"
			continue
		}
		seen := map[*skipListNode[T]]bool{}
		for n := sl.header.Forward[i]; n != nil; {
			if seen[n] {
				d.Broken[i] = "cycle"
				break
			}
			seen[n] = true
			d.Chains[i] = append(d.Chains[i], VerifSkipNode[T]{ID: n, Val: n.Val, Height: len(n.Forward)})
			if i >= len(n.Forward) {
				d.Broken[i] = "short"
				break
			}
			n = n.Forward[i]
		}
	}
	return d
}
