//go:build verif

// Read-only white-box accessors for the /verif correspondence checks (C01, C02); overlaid at
// build time, never committed.  Adds methods only.
package set

// VerifDump: see internal/tree.(*RBTree).VerifDump (through mapx.TreeMap).
func (s *TreeSet[T]) VerifDump(fk func(T) string, fv func(any) string) (string, int, bool) {
	return s.treeMap.VerifDump(fk, fv)
}

// VerifSize returns the size field of the underlying tree.
func (s *TreeSet[T]) VerifSize() int { return s.treeMap.VerifSize() }
