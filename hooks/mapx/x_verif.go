//go:build verif

// White-box accessors for the correspondence checks of /verif (C03, C01).
// Overlaid into package mapx at build time; add-only and read-only.
package mapx

// VerifBucket is one entry of HashMap.hashmap: the hash code and the collision
// chain hanging on it, in chain order (head first).
type VerifBucket[T any, V any] struct {
	Code uint64
	Keys []T
	Vals []V
	// Nil is true when the bucket exists but holds a nil head pointer.
	Nil bool
	// Cyclic is true when the walk did not reach nil within verifMaxChain nodes.
	Cyclic bool
}

const verifMaxChain = 1 << 16

// VerifDump returns every bucket of the table (Go map order) and the size counter.
func (m *HashMap[T, ValType]) VerifDump() ([]VerifBucket[T, ValType], int64) {
	res := make([]VerifBucket[T, ValType], 0, len(m.hashmap))
	for code, n := range m.hashmap {
		b := VerifBucket[T, ValType]{Code: code, Nil: n == nil}
		guard := 0
		cur := n
		for ; cur != nil && guard < verifMaxChain; cur = cur.next {
			b.Keys = append(b.Keys, cur.key)
			b.Vals = append(b.Vals, cur.value)
			guard++
		}
		b.Cyclic = cur != nil
		res = append(res, b)
	}
	return res, m.size
}

// VerifCyclic reports whether some chain of the table does not end.
func (m *HashMap[T, ValType]) VerifCyclic() bool {
	bs, _ := m.VerifDump()
	for _, b := range bs {
		if b.Cyclic {
			return true
		}
	}
	return false
}

func (m *HashMap[T, ValType]) verifCyclic() bool { return m.VerifCyclic() }

// VerifCyclic: the underlying HashMap (if any) has a chain that does not end.
func (l *LinkedMap[K, V]) VerifCyclic() bool {
	d, ok := any(l.m).(interface{ verifCyclic() bool })
	return ok && d.verifCyclic()
}

// VerifCyclic: the underlying HashMap (if any) has a chain that does not end.
func (m *MultiMap[K, V]) VerifCyclic() bool {
	d, ok := any(m.m).(interface{ verifCyclic() bool })
	return ok && d.verifCyclic()
}

func (m *HashMap[T, ValType]) verifBucketKeys() ([]uint64, [][]T, int64) {
	bs, sz := m.VerifDump()
	codes := make([]uint64, 0, len(bs))
	keys := make([][]T, 0, len(bs))
	for _, b := range bs {
		codes = append(codes, b.Code)
		keys = append(keys, b.Keys)
	}
	return codes, keys, sz
}

func (m *HashMap[T, ValType]) verifBucketKV() ([]uint64, [][]T, [][]ValType, int64) {
	bs, sz := m.VerifDump()
	codes := make([]uint64, 0, len(bs))
	keys := make([][]T, 0, len(bs))
	vals := make([][]ValType, 0, len(bs))
	for _, b := range bs {
		codes = append(codes, b.Code)
		keys = append(keys, b.Keys)
		vals = append(vals, b.Vals)
	}
	return codes, keys, vals, sz
}

// VerifBucketKeys dumps the keys of the underlying HashMap of a linked hash map
// (ok = false when the backing is not a HashMap).
func (l *LinkedMap[K, V]) VerifBucketKeys() (codes []uint64, keys [][]K, size int64, ok bool) {
	d, isHash := any(l.m).(interface {
		verifBucketKeys() ([]uint64, [][]K, int64)
	})
	if !isHash {
		return nil, nil, 0, false
	}
	codes, keys, size = d.verifBucketKeys()
	return codes, keys, size, true
}

// VerifBackward walks the order list from tail to head through the prev pointers.
func (l *LinkedMap[K, V]) VerifBackward() []K {
	res := make([]K, 0, l.length)
	guard := 0
	for cur := l.tail.prev; cur != l.head && cur != nil && guard < verifMaxChain; cur = cur.prev {
		res = append(res, cur.key)
		guard++
	}
	return res
}

// VerifDump dumps the underlying HashMap of a multi hash map (ok = false otherwise).
func (m *MultiMap[K, V]) VerifDump() (codes []uint64, keys [][]K, vals [][][]V, size int64, ok bool) {
	d, isHash := any(m.m).(interface {
		verifBucketKV() ([]uint64, [][]K, [][][]V, int64)
	})
	if !isHash {
		return nil, nil, nil, 0, false
	}
	codes, keys, vals, size = d.verifBucketKV()
	return codes, keys, vals, size, true
}

// VerifMap is the unexported mapi interface, exported for the harness.
type VerifMap[K any, V any] interface {
	Put(key K, val V) error
	Get(key K) (V, bool)
	Delete(k K) (V, bool)
	Keys() []K
	Values() []V
	Len() int64
}

// VerifNewBuiltinMap exposes the unexported builtinMap.
func VerifNewBuiltinMap[K comparable, V any](capacity int) VerifMap[K, V] {
	return newBuiltinMap[K, V](capacity)
}
