//go:build verif

// Read-only white-box accessors for the /verif correspondence checks (C01, C02); overlaid at
// build time, never committed.  Adds methods only.
package mapx

import itree "github.com/ecodeclub/ekit/internal/tree"

// VerifDump: see internal/tree.(*RBTree).VerifDump.
func (treeMap *TreeMap[K, V]) VerifDump(fk func(K) string, fv func(V) string) (string, int, bool) {
	return treeMap.tree.VerifDump(fk, fv)
}

// VerifSize returns the size field of the underlying tree.
func (treeMap *TreeMap[K, V]) VerifSize() int { return treeMap.tree.VerifSize() }

// VerifTreeErrClass classifies the errors of internal/tree (TreeMap.Put can return them).
func VerifTreeErrClass(err error) string { return itree.VerifErrClass(err) }
