//go:build verif

// White-box accessors for the C05 correspondence check (add-only, read-only).
package queue

import (
	"github.com/ecodeclub/ekit"
	"github.com/ecodeclub/ekit/internal/queue"
)

// VerifHeapDump returns the heap array of the wrapped internal priority queue (see internal/queue).
func (pq *PriorityQueue[T]) VerifHeapDump() (arr []T, ok bool) {
	return pq.priorityQueue.VerifHeapDump()
}

// VerifDataCap returns cap(data) of the wrapped internal priority queue.
func (pq *PriorityQueue[T]) VerifDataCap() int { return pq.priorityQueue.VerifDataCap() }

// VerifNewInternalPriorityQueue makes the internal priority queue itself reachable from the
// harness (internal packages cannot be imported from outside the module).
func VerifNewInternalPriorityQueue[T any](capacity int, compare ekit.Comparator[T]) *queue.PriorityQueue[T] {
	return queue.NewPriorityQueue[T](capacity, compare)
}

// VerifErrEmptyQueue / VerifErrOutOfCapacity are the internal package's sentinel errors.
var (
	VerifErrEmptyQueue    = queue.ErrEmptyQueue
	VerifErrOutOfCapacity = queue.ErrOutOfCapacity
)
