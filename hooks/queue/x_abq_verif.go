//go:build verif

// White-box accessor for the ABQ lock-step correspondence (C07/C09): add-only, read-only.
package queue

import "golang.org/x/sync/semaphore"

// VerifABQState returns the ring cursors and the two semaphores of the queue. The caller must
// make sure no goroutine is inside the critical section (lock-step: every goroutine is stopped
// at a yield point or parked inside Acquire).
func (c *ConcurrentArrayBlockingQueue[T]) VerifABQState() (head, tail, count, capacity int, enq, deq *semaphore.Weighted) {
	return c.head, c.tail, c.count, cap(c.data), c.enqueueCap, c.dequeueCap
}
