//go:build verif

// White-box accessor for the DelayQueue stress monitor (add-only, read-only).
package queue

// VerifLen returns the number of elements in the inner priority queue (taken under the mutex).
func (d *DelayQueue[T]) VerifLen() int {
	d.mutex.Lock()
	defer d.mutex.Unlock()
	return d.q.Len()
}
