//go:build verif && !race

package verifhook

const raceBuild = false

func unsyncRand() uint64 { return 0 }
