//go:build verif

// Package verifhook is injected into the module by `go build -overlay` (it does not exist
// in the repository). The instrumented copies of the concurrent files call At before every
// statement. Modes: Off (At returns at once: the code behaves like the original),
// LockStep (managed goroutines stop at every yield point until the controller grants one
// step) and Chaos (random yields / short sleeps, for race-detector and stress runs).
package verifhook

import (
	"fmt"
	"os"
	"runtime"
	"strconv"
	"strings"
	"sync"
	"sync/atomic"
	"time"
)

const (
	Off = iota
	LockStep
	Chaos
)

var mode atomic.Int32

// Obs is one observation sent to the controller.
type Obs struct {
	Tid  int
	Kind string // "at", "ret", "panic"
	Val  string
}

type gstate struct {
	tid    int
	grant  chan struct{}
	timers []*time.Timer
	// duration the most recent NewTimer / ResetTimer of this goroutine was given (the fake timer itself ignores it)
	lastDur time.Duration
	hasDur  bool
}

var (
	mu        sync.Mutex
	gs        = map[uint64]*gstate{}
	byTid     = map[int]*gstate{}
	obsCh     = make(chan Obs, 1024)
	autoReg   bool
	nextAuto  int
	chaosSeed atomic.Int64
	chaosCtr  atomic.Int64
	vnow      atomic.Int64 // virtual clock (ns)
	gen       atomic.Int64 // schedule generation: observations of goroutines of an older schedule are dropped
)

func goid() uint64 {
	var buf [64]byte
	n := runtime.Stack(buf[:], false)
	// "goroutine 123 ["
	s := strings.TrimPrefix(string(buf[:n]), "goroutine ")
	i := strings.IndexByte(s, ' ')
	id, _ := strconv.ParseUint(s[:i], 10, 64)
	return id
}

// SetMode switches the behaviour of At for the whole process.
func SetMode(m int) {
	if m == Chaos && chaosSeed.Load() == 0 {
		if v, err := strconv.ParseInt(os.Getenv("VERIF_SEED"), 10, 64); err == nil {
			chaosSeed.Store(v)
		} else {
			chaosSeed.Store(1)
		}
	}
	mode.Store(int32(m))
}

// Reset forgets every managed goroutine (between schedules).
func Reset(autoRegister bool, firstAutoTid int) {
	gen.Add(1)
	mu.Lock()
	gs = map[uint64]*gstate{}
	byTid = map[int]*gstate{}
	autoReg = autoRegister
	nextAuto = firstAutoTid
	mu.Unlock()
	for {
		select {
		case <-obsCh:
		default:
			vnow.Store(0)
			return
		}
	}
}

func lookup(create bool) *gstate {
	id := goid()
	mu.Lock()
	defer mu.Unlock()
	g := gs[id]
	if g == nil && create && autoReg {
		g = &gstate{tid: nextAuto, grant: make(chan struct{})}
		nextAuto++
		gs[id] = g
		byTid[g.tid] = g
	}
	return g
}

// At is the yield point.
func At(label string) {
	switch mode.Load() {
	case Off:
		return
	case Chaos:
		chaos()
		return
	}
	g := lookup(true)
	if g == nil {
		return // not a managed goroutine (harness set-up code, background helpers)
	}
	obsCh <- Obs{g.tid, "at", label}
	<-g.grant
}

// chaosNext derives the chaos decisions from VERIF_SEED (splitmix64 over a shared counter), so that a
// stress command is reproducible up to the Go scheduler's own choices.
func chaosNext() int64 {
	if raceBuild {
		return int64(unsyncRand() >> 1)
	}
	z := uint64(chaosSeed.Load()) + uint64(chaosCtr.Add(1))*0x9E3779B97F4A7C15
	z = (z ^ (z >> 30)) * 0xBF58476D1CE4E5B9
	z = (z ^ (z >> 27)) * 0x94D049BB133111EB
	return int64((z ^ (z >> 31)) >> 1)
}

func chaos() {
	x := chaosNext()
	switch {
	case x%4 == 0:
		runtime.Gosched()
	case x%61 == 0:
		time.Sleep(time.Duration(x%50) * time.Microsecond)
	}
}

// Spawn runs f as managed goroutine tid; it runs until its first yield point without a grant.
func Spawn(tid int, f func() string) {
	g := &gstate{tid: tid, grant: make(chan struct{})}
	started := make(chan struct{})
	myGen := gen.Load()
	go func() {
		id := goid()
		mu.Lock()
		gs[id] = g
		byTid[tid] = g
		mu.Unlock()
		close(started)
		defer func() {
			mu.Lock()
			delete(gs, id)
			mu.Unlock()
			if r := recover(); r != nil && gen.Load() == myGen {
				obsCh <- Obs{tid, "panic", fmt.Sprint(r)}
			}
		}()
		r := f()
		if gen.Load() == myGen {
			obsCh <- Obs{tid, "ret", r}
		}
	}()
	<-started
}

// Grant lets goroutine tid run to its next yield point. false = it is not waiting at one.
func Grant(tid int, wait time.Duration) bool {
	mu.Lock()
	g := byTid[tid]
	mu.Unlock()
	if g == nil {
		return false
	}
	select {
	case g.grant <- struct{}{}:
		return true
	case <-time.After(wait):
		return false
	}
}

// Next returns the next observation, or Kind "timeout".
func Next(wait time.Duration) Obs {
	if wait <= 0 {
		select {
		case o := <-obsCh:
			return o
		default:
			return Obs{-1, "timeout", ""}
		}
	}
	select {
	case o := <-obsCh:
		return o
	case <-time.After(wait):
		return Obs{-1, "timeout", ""}
	}
}

// ---- virtual time -------------------------------------------------------------------

// Now is the virtual clock in lock-step mode, the real one otherwise.
func Now() time.Time {
	if mode.Load() == LockStep {
		return time.Unix(0, vnow.Load())
	}
	return time.Now()
}

// Advance moves the virtual clock.
func Advance(d time.Duration) { vnow.Add(int64(d)) }

const far = 24 * time.Hour

// NewTimer: in lock-step mode a real timer that never fires by itself; the controller fires
// it (Fire) when the model's clock says so. Otherwise time.NewTimer.
func NewTimer(d time.Duration) *time.Timer {
	if mode.Load() != LockStep {
		return time.NewTimer(d)
	}
	t := time.NewTimer(far)
	if g := lookup(false); g != nil {
		mu.Lock()
		g.timers = append(g.timers, t)
		g.lastDur, g.hasDur = d, true
		mu.Unlock()
	}
	return t
}

// ResetTimer replaces t.Reset(d) in instrumented code.
func ResetTimer(t *time.Timer, d time.Duration) bool {
	if mode.Load() != LockStep {
		return t.Reset(d)
	}
	if g := lookup(false); g != nil {
		mu.Lock()
		g.lastDur, g.hasDur = d, true
		mu.Unlock()
	}
	return t.Reset(far)
}

// LastTimerDuration reports the duration goroutine tid passed to its most recent NewTimer / ResetTimer call in
// lock-step mode (the fake timers never fire by themselves, so the value is otherwise unobservable there).
func LastTimerDuration(tid int) (time.Duration, bool) {
	mu.Lock()
	defer mu.Unlock()
	g := byTid[tid]
	if g == nil {
		return 0, false
	}
	return g.lastDur, g.hasDur
}

// Fire makes the most recent timer of goroutine tid deliver its tick. With waitBuffered it
// returns once the tick sits in the channel buffer (nobody is receiving); otherwise the
// caller expects the owner to wake up and report its next yield point.
func Fire(tid int, waitBuffered bool) bool {
	mu.Lock()
	g := byTid[tid]
	var t *time.Timer
	if g != nil && len(g.timers) > 0 {
		t = g.timers[len(g.timers)-1]
	}
	mu.Unlock()
	if t == nil {
		return false
	}
	t.Reset(0)
	if !waitBuffered {
		return true
	}
	for i := 0; i < 40000; i++ {
		if len(t.C) > 0 {
			return true
		}
		time.Sleep(5 * time.Microsecond)
	}
	return false
}
