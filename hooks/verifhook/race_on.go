//go:build verif && race

package verifhook

import "math/rand/v2"

// raceBuild: under the race detector the chaos decisions must not come from a shared atomic counter — an atomic
// read-modify-write at every yield point is a release/acquire pair between ALL statements of all goroutines and
// hides the very races the detector is run for.  The runtime's per-thread generator involves no synchronisation
// the detector can see (the decisions are then not derived from VERIF_SEED; the -race runs are a search layer).
const raceBuild = true

func unsyncRand() uint64 { return rand.Uint64() }
