//go:build verif

// White-box accessors for the correspondence check of the skip list (C05).  The public wrapper
// does not export Peek, Get and NewSkipListFromSlice of the internal skip list; these
// pass-throughs make them (and the tower dump) reachable from the harness.  Add-only.
package list

import (
	"github.com/ecodeclub/ekit"
	"github.com/ecodeclub/ekit/internal/list"
)

func (sl *SkipList[T]) VerifDump() list.VerifSkipDump[T] { return sl.skiplist.VerifDump() }

func (sl *SkipList[T]) VerifPeek() (T, error) { return sl.skiplist.Peek() }

func (sl *SkipList[T]) VerifGet(index int) (T, error) { return sl.skiplist.Get(index) }

func VerifNewSkipListFromSlice[T any](slice []T, compare ekit.Comparator[T]) *SkipList[T] {
	return &SkipList[T]{skiplist: list.NewSkipListFromSlice[T](slice, compare)}
}
