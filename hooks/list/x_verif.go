//go:build verif

// White-box, read-only accessors for the aliasing observables of the C04 correspondence check
// (coq/theories/model/ListMemModel.v).  Add-only: nothing here writes a field or an element.
package list

// VerifVals returns the list's current backing slice header (the field vals itself, NOT a copy).
// The harness only reads through it and compares its data pointer.
func (a *ArrayList[T]) VerifVals() []T { return a.vals }

// VerifVals returns the currently published slice of the copy-on-write list (what a reader's
// snapshot() sees).
func (a *CopyOnWriteArrayList[T]) VerifVals() []T { return a.snapshot() }
