//go:build verif

// White-box, read-only accessor for the pointer-level correspondence check of LinkedList
// (C04, coq/theories/model/LinkedPtrModel.v).  Add-only: it changes no field of the list.
package list

// VerifLLDump is what the walker sees of the node ring.
//
//	Length  the length field
//	Fwd     the nodes met following next from head, for at most Length+3 nodes (stops at nil);
//	        every node is named by the position of its first occurrence in this walk
//	Bwd     the nodes met following prev from tail, for at most Length+3 nodes, with the names
//	        given by the forward walk (-1 = a node the forward walk did not meet)
//	FVals   the values of the (at most) Length nodes after head in the forward walk
//	BVals   the values of the (at most) Length nodes after tail in the backward walk
type VerifLLDump[T any] struct {
	Length int
	Fwd    []int
	Bwd    []int
	FVals  []T
	BVals  []T
}

func (l *LinkedList[T]) VerifDump() VerifLLDump[T] {
	d := VerifLLDump[T]{Length: l.length}
	n := l.length
	if n < 0 {
		n = 0
	}
	names := map[*node[T]]int{}
	k := 0
	for cur := l.head; cur != nil && k < n+3; cur, k = cur.next, k+1 {
		id, seen := names[cur]
		if !seen {
			id = len(names)
			names[cur] = id
		}
		d.Fwd = append(d.Fwd, id)
		if k >= 1 && k <= n {
			d.FVals = append(d.FVals, cur.val)
		}
	}
	k = 0
	for cur := l.tail; cur != nil && k < n+3; cur, k = cur.prev, k+1 {
		id, seen := names[cur]
		if !seen {
			id = -1
		}
		d.Bwd = append(d.Bwd, id)
		if k >= 1 && k <= n {
			d.BVals = append(d.BVals, cur.val)
		}
	}
	return d
}
