//go:build verif

// Read-only white-box accessors for the /verif correspondence checks (C01, C02); overlaid at
// build time, never committed.  Adds methods only.
package tree

import itree "github.com/ecodeclub/ekit/internal/tree"

// VerifDump: see internal/tree.(*RBTree).VerifDump.
func (rb *RBTree[K, V]) VerifDump(fk func(K) string, fv func(V) string) (string, int, bool) {
	return rb.rbTree.VerifDump(fk, fv)
}

// VerifSize returns the size field of the underlying tree.
func (rb *RBTree[K, V]) VerifSize() int { return rb.rbTree.VerifSize() }

// VerifErrClass classifies the errors of internal/tree.
func VerifErrClass(err error) string { return itree.VerifErrClass(err) }
