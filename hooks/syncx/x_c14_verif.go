//go:build verif

// Read-only white-box accessors for the /verif correspondence check C14; overlaid at build time,
// never committed.  Adds methods only.
package syncx

import "sync"

// VerifTokens returns the current value of the token counter.
func (l *LimitPool[T]) VerifTokens() (int64, bool) { return int64(l.tokens.Load()), true }

// VerifIndex returns the position in s.locks of the mutex getLock(key) selects (-1: not an element).
func (s *SegmentKeysLock) VerifIndex(key string) (int, bool) {
	m := s.getLock(key)
	for i, p := range s.locks {
		if p == m {
			return i, true
		}
	}
	return -1, true
}

// VerifLockAt returns the i-th mutex (the harness only probes it with Try* and releases what it took).
func (s *SegmentKeysLock) VerifLockAt(i int) *sync.RWMutex { return s.locks[i] }

// VerifShape returns len(locks) and the size field.
func (s *SegmentKeysLock) VerifShape() (int, uint32) { return len(s.locks), s.size }
